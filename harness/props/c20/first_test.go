//go:build !386

package c20

import (
	"fmt"
	"math"
	"os"
	"os/exec"
	"runtime"
	"strconv"
	"strings"
	"sync"
	"sync/atomic"
	"syscall"
	"testing"
	"time"
	"unsafe"

	typ "gopkg.in/typ.v4"
	"verifharness/internal/pbt"
)

// First is about the very first calls of each helper in the life of a process: Children fresh processes (this
// test binary re-executing itself with -test.run ^TestC20FirstChild$) each hold G goroutines, locked to threads
// of their own, and release them - once per helper family, the families in an order that rotates with the child
// number - at the same instant into the process's first calls of one instantiation of that family (instantiation
// and arguments rotate with the child number and the goroutine); every result is compared with a reference
// computed before the release. State that the library builds lazily on first use without synchronisation (a
// table of powers of ten, a cache) shows as one wrong result in one of the children; no later call can show it.
type First struct {
	Children int `json:"children"`
	G        int `json:"g"`
}

// firstHelper: prep(a) computes, WITHOUT calling the library, the expected result and returns the call to make.
type firstHelper struct {
	name string
	args []int64
	prep func(a int64) (call func() string, want string, do func() string)
}

func digitArgs() []int64 {
	out := []int64{math.MinInt64, math.MaxInt64, 255, 128, -128, 99, 12345}
	for k := 4; k <= 62; k += 3 {
		out = append(out, 1<<k, -(1 << (k + 1)), 1<<(k+2)-1)
	}
	p := int64(10)
	for k := 1; k <= 18; k++ {
		out = append(out, p, p-1, -p, p+1, p/2, -(p - 1))
		p *= 10
	}
	return out
}

func fh[T any](name string, args []int64, conv func(int64) T, ref func(T) string, f func(T) string) firstHelper {
	return firstHelper{name: name, args: args, prep: func(a int64) (func() string, string, func() string) {
		x := conv(a)
		return func() string { return fmt.Sprintf("typ.%s with x = %#v", name, x) }, ref(x), func() string { return f(x) }
	}}
}

func itoa(n int) string { return strconv.Itoa(n) }

func decDigitsS(s string) (digits, withSign int) {
	if strings.HasPrefix(s, "-") {
		return len(s) - 1, len(s)
	}
	return len(s), len(s)
}

func digitsRef[T int8 | int16 | int32 | int64](sign bool) func(T) string {
	return func(x T) string {
		d, ds := decDigitsS(strconv.FormatInt(int64(x), 10))
		if sign {
			return itoa(ds)
		}
		return itoa(d)
	}
}

func udigitsRef[T uint8 | uint16 | uint32 | uint64 | uintptr]() func(T) string {
	return func(x T) string { return itoa(len(strconv.FormatUint(uint64(x), 10))) }
}

func conv[T int8 | int16 | int32 | int64 | uint8 | uint16 | uint32 | uint64 | uintptr | float64](a int64) T {
	return T(a)
}

func fstr(v any) string { return fmt.Sprint(v) }

var smallArgs = []int64{0, 1, -1, 7, -128, 99, 100, math.MaxInt64, math.MinInt64 + 1, 1 << 32, -(1 << 31), 12345}

func argStr(a int64) string { return "s" + strconv.FormatInt(a&0xff, 10) }

var firstHelpers = []firstHelper{
	fh("Digits10[uint64]", digitArgs(), conv[uint64], udigitsRef[uint64](), func(x uint64) string { return itoa(typ.Digits10(x)) }),
	fh("Digits10[int64]", digitArgs(), conv[int64], digitsRef[int64](false), func(x int64) string { return itoa(typ.Digits10(x)) }),
	fh("Digits10[int32]", digitArgs(), conv[int32], digitsRef[int32](false), func(x int32) string { return itoa(typ.Digits10(x)) }),
	fh("Digits10[uint16]", digitArgs(), conv[uint16], udigitsRef[uint16](), func(x uint16) string { return itoa(typ.Digits10(x)) }),
	fh("Digits10[int8]", digitArgs(), conv[int8], digitsRef[int8](false), func(x int8) string { return itoa(typ.Digits10(x)) }),
	fh("Digits10[uintptr]", digitArgs(), conv[uintptr], udigitsRef[uintptr](), func(x uintptr) string { return itoa(typ.Digits10(x)) }),
	fh("DigitsSign10[int64]", digitArgs(), conv[int64], digitsRef[int64](true), func(x int64) string { return itoa(typ.DigitsSign10(x)) }),
	fh("DigitsSign10[int16]", digitArgs(), conv[int16], digitsRef[int16](true), func(x int16) string { return itoa(typ.DigitsSign10(x)) }),
	fh("DigitsSign10[uint32]", digitArgs(), conv[uint32], udigitsRef[uint32](), func(x uint32) string { return itoa(typ.DigitsSign10(x)) }),
	fh("Abs[int64]", smallArgs, conv[int64], func(x int64) string {
		if x < 0 {
			return fstr(-x)
		}
		return fstr(x)
	}, func(x int64) string { return fstr(typ.Abs(x)) }),
	fh("Abs[float64]", smallArgs, conv[float64], func(x float64) string { return fstr(math.Abs(x)) }, func(x float64) string { return fstr(typ.Abs(x)) }),
	fh("Min[int64](7, x, -3)", smallArgs, conv[int64], func(x int64) string { return fstr(min(7, x, -3)) }, func(x int64) string { return fstr(typ.Min(7, x, -3)) }),
	fh("Max[int64](7, x, -3)", smallArgs, conv[int64], func(x int64) string { return fstr(max(7, x, -3)) }, func(x int64) string { return fstr(typ.Max(7, x, -3)) }),
	fh("Max[string](\"s5\", x, \"\")", smallArgs, argStr, func(x string) string { return max("s5", x, "") }, func(x string) string { return typ.Max("s5", x, "") }),
	fh("Sum[int64](7, x, -3)", smallArgs, conv[int64], func(x int64) string { return fstr(7 + x + (-3)) }, func(x int64) string { return fstr(typ.Sum(7, x, -3)) }),
	fh("Product[int64](7, x, -3)", smallArgs, conv[int64], func(x int64) string { return fstr(7 * x * (-3)) }, func(x int64) string { return fstr(typ.Product(7, x, -3)) }),
	fh("Product[float64](0.5, x)", smallArgs, conv[float64], func(x float64) string { return fstr(0.5 * x) }, func(x float64) string { return fstr(typ.Product(0.5, x)) }),
	fh("Clamp[int64](x, -100, 100)", smallArgs, conv[int64], func(x int64) string { return fstr(min(max(x, -100), 100)) }, func(x int64) string { return fstr(typ.Clamp(x, -100, 100)) }),
	fh("Clamp01[float64]", smallArgs, conv[float64], func(x float64) string { return fstr(min(max(x, 0), 1)) }, func(x float64) string { return fstr(typ.Clamp01(x)) }),
	fh("Compare[int64](x, 99)", smallArgs, conv[int64], func(x int64) string { return fstr(cmp3(x, 99)) }, func(x int64) string { return fstr(typ.Compare(x, 99)) }),
	fh("Less[string](x, \"s5\")", smallArgs, argStr, func(x string) string { return fstr(x < "s5") }, func(x string) string { return fstr(typ.Less(x, "s5")) }),
	fh("Coal[int64](0, 0, x, 5)", smallArgs, conv[int64], func(x int64) string {
		if x != 0 {
			return fstr(x)
		}
		return "5"
	}, func(x int64) string { return fstr(typ.Coal(0, 0, x, 5)) }),
	fh("Coal[string](\"\", x)", smallArgs, argStr, func(x string) string { return x }, func(x string) string { return typ.Coal("", x) }),
	fh("IsZero[int64]", smallArgs, conv[int64], func(x int64) string { return fstr(x == 0) }, func(x int64) string { return fstr(typ.IsZero(x)) }),
	fh("IsZero[any]", smallArgs, func(a int64) any {
		if a == 0 {
			return nil
		}
		return a
	}, func(x any) string { return fstr(x == nil) }, func(x any) string { return fstr(typ.IsZero(x)) }),
	fh("Zero/ZeroOf[int64]", smallArgs, conv[int64], func(x int64) string { return "0 0" }, func(x int64) string { return fstr(typ.Zero[int64]()) + " " + fstr(typ.ZeroOf(x)) }),
	fh("Tern[int64](x > 0, x, -x)", smallArgs, conv[int64], func(x int64) string {
		if x > 0 {
			return fstr(x)
		}
		return fstr(-x)
	}, func(x int64) string { return fstr(typ.Tern(x > 0, x, -x)) }),
	fh("TernCast[int64](true, any(x), 0)", smallArgs, conv[int64], func(x int64) string { return fstr(x) }, func(x int64) string { return fstr(typ.TernCast[int64](true, any(x), 0)) }),
	fh("DerefZero(Ref[int64](x))", smallArgs, conv[int64], func(x int64) string { return fstr(x) }, func(x int64) string { return fstr(typ.DerefZero(typ.Ref(x))) }),
	fh("IsNil[any]", smallArgs, func(a int64) any {
		if a == 0 {
			return nil
		}
		return (*int64)(nil)
	}, func(x any) string { return fstr(x == nil) }, func(x any) string { return fstr(typ.IsNil(x)) }),
}

func firstHelperOf(name string) *firstHelper {
	for i := range firstHelpers {
		if firstHelpers[i].name == name {
			return &firstHelpers[i]
		}
	}
	return nil
}

// firstFamilies groups the instantiations by the library function whose first call it is (DigitsSign10 calls
// Digits10: one family).
var firstFamilies = func() (out [][]*firstHelper) {
	idx := map[string]int{}
	for i := range firstHelpers {
		h := &firstHelpers[i]
		f := h.name
		if j := strings.IndexAny(f, "[(/"); j >= 0 {
			f = f[:j]
		}
		switch f {
		case "DigitsSign10":
			f = "Digits10"
		case "DerefZero":
			f = "Ref"
		}
		k, ok := idx[f]
		if !ok {
			k = len(out)
			idx[f] = k
			out = append(out, nil)
		}
		out[k] = append(out[k], h)
	}
	return out
}()

const firstMark = "C20-FIRST-RESULT:"

// firstGate releases the goroutines that are on a core at the (pre-arranged) time d at the same instant, without
// waiting for stragglers (on an overloaded machine a thread may be off its core for many milliseconds): until
// shortly before d a goroutine polls the clock giving its core away (sched_yield), the last stretch is a tight
// loop on a flag that the first one to see the time come sets. A goroutine that comes late just goes ahead.
type firstGate struct {
	d    int64 // unix ns
	open atomic.Int32
}

func (f *firstGate) wait(rt bool) {
	for {
		left := f.d - int64(firstSpin) - time.Now().UnixNano()
		if left <= 0 {
			break
		}
		if rt { // a real-time thread sleeps (costs nothing) and is woken on time
			ts := syscall.NsecToTimespec(left)
			syscall.RawSyscall(syscall.SYS_NANOSLEEP, uintptr(unsafe.Pointer(&ts)), 0, 0)
		} else {
			syscall.RawSyscall(syscall.SYS_SCHED_YIELD, 0, 0, 0)
		}
	}
	for i := 0; f.open.Load() == 0; i++ {
		if i&63 == 0 && time.Now().UnixNano() >= f.d {
			f.open.Store(1)
		}
	}
}

// firstRealtime gives the calling (locked) thread the lowest real-time priority, where the system permits it: on
// an overloaded machine only then are all goroutines of a child on a core at the moment of a release. Such a thread
// sleeps between the releases and spins for at most firstSpin before each (bounded by the clock): 17 rounds x 0.1 ms.
func firstRealtime() bool {
	if os.Getenv("C20_NORT") != "" {
		return false
	}
	param := struct{ prio int32 }{1}
	const schedFIFO = 1
	_, _, e := syscall.Syscall(syscall.SYS_SCHED_SETSCHEDULER, 0, schedFIFO, uintptr(unsafe.Pointer(&param)))
	return e == 0
}

const (
	firstSpin   = 100 * time.Microsecond // tight loop before each release
	firstPeriod = 600 * time.Microsecond // between the releases of two rounds
)

// TestC20FirstChild is the child process of C20.first (nothing else may have called the library before).
func TestC20FirstChild(t *testing.T) {
	spec := os.Getenv("VERIF_C20_FIRST")
	if spec == "" {
		t.Skip("child mode only")
	}
	var g, idx int
	if n, _ := fmt.Sscanf(spec, "%d|%d", &g, &idx); n != 2 || g < 2 || g > 64 || idx < 0 {
		t.Fatal("bad VERIF_C20_FIRST")
	}
	// this thread first: the threads it starts inherit the real-time class, so that starting g of them does not take
	// seconds on an overloaded machine
	runtime.LockOSThread()
	firstRealtime()
	if runtime.GOMAXPROCS(0) < g+2 {
		runtime.GOMAXPROCS(g + 2)
	}
	nf := len(firstFamilies)
	type slot struct {
		call      func() string
		want, got string
		do        func() string
	}
	rounds := make([][]slot, nf)
	helpers := make([]*firstHelper, nf)
	for r := range rounds {
		fam := firstFamilies[(r+idx)%nf]
		h := fam[(idx/nf+idx)%len(fam)]
		helpers[r] = h
		rounds[r] = make([]slot, g)
		for w := 0; w < g; w++ {
			s := &rounds[r][w]
			s.call, s.want, s.do = h.prep(h.args[(w+idx*g)%len(h.args)])
		}
	}
	gates := make([]firstGate, nf)
	var arrived atomic.Int32
	var t0 atomic.Int64 // set by the last goroutine to have its thread ready: the rounds' release times count from it
	var wg sync.WaitGroup
	for w := 0; w < g; w++ {
		wg.Add(1)
		go func(w int) {
			defer wg.Done()
			runtime.LockOSThread()
			rt := firstRealtime()
			if int(arrived.Add(1)) == g {
				now := time.Now().UnixNano()
				for r := range gates {
					gates[r].d = now + int64(3*time.Millisecond) + int64(r)*int64(firstPeriod)
				}
				t0.Store(now)
			}
			for t0.Load() == 0 {
				if rt {
					ts := syscall.NsecToTimespec(int64(time.Millisecond))
					syscall.RawSyscall(syscall.SYS_NANOSLEEP, uintptr(unsafe.Pointer(&ts)), 0, 0)
				} else {
					syscall.RawSyscall(syscall.SYS_SCHED_YIELD, 0, 0, 0)
				}
			}
			for r := range rounds {
				do := rounds[r][w].do
				gates[r].wait(rt)
				rounds[r][w].got = do()
			}
		}(w)
	}
	wg.Wait()
	msg := ""
	for r := range rounds {
		for w := 0; w < g && msg == ""; w++ {
			if s := rounds[r][w]; s.got != s.want {
				msg = fmt.Sprintf("%s = %s, want %s (one of the first calls of this helper in a fresh process, made by %d goroutines at the same instant; child process #%d, round %d)", s.call(), s.got, s.want, g, idx, r)
			}
		}
	}
	// afterwards, in one goroutine: every argument of the helpers used
	for _, h := range helpers {
		for _, a := range h.args {
			call, want, do := h.prep(a)
			if got := do(); got != want && msg == "" {
				msg = fmt.Sprintf("%s = %s, want %s (a later call in the same process, after %d goroutines made the first calls at the same instant)", call(), got, want, g)
			}
		}
	}
	fmt.Printf("%s%s\n", firstMark, strconv.Quote(msg))
}

func firstChild(c First, idx int) (msg string, ok bool, log string) {
	cmd := exec.Command(os.Args[0], "-test.run", "^TestC20FirstChild$", "-test.count=1", "-test.timeout", "120s")
	cmd.Env = append(os.Environ(), fmt.Sprintf("VERIF_C20_FIRST=%d|%d", c.G, idx), "VERIF_REPLAY=", "VERIF_WORK=")
	b, _ := cmd.CombinedOutput()
	log = string(b)
	if i := strings.Index(log, firstMark); i >= 0 {
		line := log[i+len(firstMark):]
		if j := strings.IndexByte(line, '\n'); j >= 0 {
			line = line[:j]
		}
		if s, e := strconv.Unquote(line); e == nil {
			return s, true, log
		}
	}
	return "", false, log
}

// firstBudget bounds the wall time of one case: no further child is started after it (an overloaded machine then
// runs fewer children; the label children-run:* tells how many).
var firstBudget = map[string]time.Duration{"quick": 10 * time.Second, "thorough": 4 * time.Minute}

func RunFirst(c First) pbt.Outcome {
	if c.Children < 1 || c.Children > 5000 || c.G < 2 || c.G > 64 {
		return malformed()
	}
	budget := firstBudget[os.Getenv("VERIF_TIER")]
	if budget == 0 {
		budget = 30 * time.Second // replay
	}
	t0 := time.Now()
	const par = 4
	type res struct {
		msg string
		ok  bool
		log string
	}
	results := make([]res, c.Children)
	var next atomic.Int32
	var stop atomic.Bool
	var wg sync.WaitGroup
	for p := 0; p < par; p++ {
		wg.Add(1)
		go func() {
			defer wg.Done()
			// the children inherit the scheduling class of the thread that forks them: real-time where permitted, so
			// that a child's start-up (a few ms of one core) does not take half a second on an overloaded machine.
			// The thread stays locked: it ends with this goroutine.
			runtime.LockOSThread()
			firstRealtime()
			for !stop.Load() && time.Since(t0) < budget {
				i := int(next.Add(1)) - 1
				if i >= c.Children {
					return
				}
				m, ok, log := firstChild(c, i)
				results[i] = res{m, ok, log}
				if m != "" || !ok {
					stop.Store(true)
				}
			}
		}()
	}
	wg.Wait()
	ran := 0
	for i, r := range results {
		if r.log == "" {
			continue
		}
		ran++
		if r.ok && r.msg != "" {
			return pbt.Fail("%s", r.msg)
		}
		if !r.ok {
			tail := r.log
			if len(tail) > 1500 {
				tail = tail[len(tail)-1500:]
			}
			if strings.Contains(r.log, "panic:") || strings.Contains(r.log, "fatal error:") {
				return pbt.Fail("child process #%d, making the first calls of the helpers from %d goroutines, died: %s", i, c.G, tail)
			}
			return pbt.Outcome{Inconclusive: "child process produced no result: " + tail}
		}
	}
	cls := "children-run:all"
	if ran < c.Children {
		cls = "children-run:cut-by-time-budget"
	}
	return pbt.Outcome{Labels: []string{fmt.Sprintf("goroutines:%d", c.G), cls}, NonTrivial: true, Evals: ran * c.G * len(firstFamilies)}
}

func enumFirst(shard, shards int, tier string, yield func(First) bool) {
	n := 80
	if tier == "thorough" {
		n = 1500
	}
	k := 0
	for rep := 0; rep < 2; rep++ {
		for _, g := range []int{16, 4, 8, 2} {
			mine := k%shards == shard
			k++
			if mine && !yield(First{Children: n + rep, G: g}) {
				return
			}
		}
	}
}

var specFirst = pbt.Register(&pbt.Spec[First]{
	Property: "C20", Name: "C20.first",
	Rule: "enumerated, 8 cases of 80 (thorough: 1500) FRESH PROCESSES each (the test binary re-executing itself, four at a time): every child holds 16, 8, 4 or 2 goroutines locked to threads of their own (in the real-time scheduling class where the system permits, " +
		"so that they are all on a core at the moment of a release even on an overloaded machine; they sleep between releases and spin for 0.1 ms before each) and releases them, " +
		"once per helper family (Digits10/DigitsSign10 at nine instantiations, Abs, Min, Max, Sum, Product, Clamp, Clamp01, Compare, Less, Coal, IsZero, Zero/ZeroOf, Tern, TernCast, Ref/DerefZero, IsNil; 17 families, their order and the " +
		"instantiation rotate with the child number), at the same instant into the process's first calls of that helper; arguments rotate over boundary values (powers of ten +-1, powers of two, extremes) with goroutine and child number; " +
		"every result is compared with a strconv / built-in reference computed before the release, then every argument once more in one goroutine. Covers state built lazily on first use without synchronisation (tables, caches). " +
		"A case stops starting children after 10 s (thorough: 4 min) of wall time. non-trivial = every case",
	Enum: enumFirst, Run: RunFirst, Exhaustive: true,
	Retries: 5, CaseCPU: 10 * time.Minute,
})

func TestC20First(t *testing.T) { pbt.Check(t, specFirst) }
