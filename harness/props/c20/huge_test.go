//go:build !386

package c20

import (
	"fmt"
	"runtime"
	"strings"
	"sync"
	"sync/atomic"
	"time"

	typ "gopkg.in/typ.v4"
	"pgregory.net/rapid"
	"verifharness/internal/pbt"
)

// Huge is one variadic call with N (2^20 .. 2^24 + 1) arguments of ONE BYTE each - cheap in memory and time, yet
// far beyond the sizes of C20.big: recursion per element or per chunk overflows the goroutine stack there (the
// process dies with "fatal error: stack overflow": the driver reports the running case, the unit is Crashy), and
// work done in pieces of 2^22 meets its first piece boundary. The arguments follow a formula of (Seed, i), with a
// special element at Pos (the unique minimum / maximum / first non-zero; for Sum and Product an arbitrary value).
// Flip: another goroutine switches runtime.GOMAXPROCS between 2 and 7 in a loop WHILE the call runs.
type Huge struct {
	Fn   string `json:"fn"`
	T    string `json:"t"`
	N    int    `json:"n"`
	Pos  int    `json:"pos"`
	Seed int    `json:"seed"`
	Flip bool   `json:"flip,omitempty"`
}

const maxHuge = 1<<24 + 16

type oneByte interface{ ~uint8 | ~int8 }

// hugeData: background values 11..199 (odd ones only for Product, so that the wrapping product stays non-zero),
// shifted by -100 for the signed types; the special element is 3 / 250 (-120 / 120 signed) for Min / Max.
func hugeData[T oneByte](c Huge, signed bool) []T {
	v := make([]T, c.N)
	off := 0
	if signed {
		off = -100
	}
	x := uint32(c.Seed)*2654435761 + 12345
	for i := range v {
		x = x*1664525 + 1013904223
		b := int(x>>24)%95*2 + 11 // odd, 11..199
		if c.Fn != "Product" {
			b -= int(x>>16) & 1 // any of 10..199
		}
		v[i] = T(b + off)
	}
	if c.N > 0 {
		switch c.Fn {
		case "Min":
			v[c.Pos] = T(3 + off - 23*b2int(signed))
		case "Max":
			v[c.Pos] = T(250 + off - 30*b2int(signed))
		default:
			v[c.Pos] = T(77)
		}
	}
	return v
}

func b2int(b bool) int {
	if b {
		return 1
	}
	return 0
}

func hugeOrdered[T oneByte](c Huge, signed bool) string {
	v := hugeData[T](c, signed)
	var want, got T
	switch c.Fn {
	case "Min", "Max":
		want = v[0]
		for _, x := range v[1:] {
			if c.Fn == "Min" && x < want || c.Fn == "Max" && x > want {
				want = x
			}
		}
		if c.Fn == "Min" {
			got = typ.Min(v...)
		} else {
			got = typ.Max(v...)
		}
	case "Sum":
		for _, x := range v {
			want += x
		}
		got = typ.Sum(v...)
	case "Product":
		want = 1
		for _, x := range v {
			want *= x
		}
		got = typ.Product(v...)
	default:
		return "?"
	}
	if got != want {
		return fmt.Sprintf("typ.%s of %d arguments of type %s (formula of seed %d, special element %v at index %d) = %v, want %v", c.Fn, c.N, c.T, c.Seed, v[c.Pos], c.Pos, got, want)
	}
	// the arguments are the caller's: unchanged
	w := hugeData[T](c, signed)
	for i := range v {
		if v[i] != w[i] {
			return fmt.Sprintf("typ.%s of %d arguments of type %s changed its argument #%d from %v to %v", c.Fn, c.N, c.T, i, w[i], v[i])
		}
	}
	return ""
}

type byteBox struct{ B uint8 }

func hugeCoal[T comparable](c Huge, nz func(i int) T) string {
	v := make([]T, c.N)
	var zero T
	want := zero
	if c.Seed%4 != 3 { // one case in four: all zero
		v[c.Pos] = nz(1)
		want = v[c.Pos]
		for i := c.Pos + 1; i < c.N; i += 1 + c.N/7 {
			v[i] = nz(2 + i%5)
		}
	}
	if got := typ.Coal(v...); got != want {
		return fmt.Sprintf("typ.Coal of %d arguments of type %s (all zero before index %d; seed %d) = %v, want %v", c.N, c.T, c.Pos, c.Seed, got, want)
	}
	return ""
}

func hugeString(c Huge) string {
	a := strings.Repeat("abcdefgh", c.N/8+1)[:c.N]
	bb := []byte(a)
	bb[c.Pos]++
	b := string(bb) // a < b, they differ at Pos only
	bad := func(call string, got, want any) string {
		return fmt.Sprintf("typ.%s on two strings of %d bytes that differ at byte %d only (a < b) = %v, want %v", call, c.N, c.Pos, got, want)
	}
	switch c.Fn {
	case "Compare":
		if got := typ.Compare(a, b); got != -1 {
			return bad("Compare(a, b)", got, -1)
		}
		if got := typ.Compare(b, a); got != 1 {
			return bad("Compare(b, a)", got, 1)
		}
		if got := typ.Compare(b, string(bb)); got != 0 {
			return bad("Compare(b, copy of b)", got, 0)
		}
		if typ.Less(b, a) || !typ.Less(a, b) {
			return bad("Less(b, a), Less(a, b)", "not false, true", "false, true")
		}
	case "Min":
		if got := typ.Min(b, a, b); got != a {
			return bad("Min(b, a, b)", "not a", "a")
		}
	case "Max":
		if got := typ.Max(a, b, a); got != b {
			return bad("Max(a, b, a)", "not b", "b")
		}
	case "Coal":
		if got := typ.Coal("", "", a, b); got != a {
			return bad("Coal(\"\", \"\", a, b)", "not a", "a")
		}
	default:
		return "?"
	}
	return ""
}

var hugeTypes = []string{"uint8", "int8", "myUint8", "myInt8", "bool", "byteBox", "[1]uint8", "string"}

func hugeFnOK(fn, t string) bool {
	switch t {
	case "uint8", "int8", "myUint8", "myInt8":
		return fn == "Min" || fn == "Max" || fn == "Sum" || fn == "Product" || fn == "Coal"
	case "bool", "byteBox", "[1]uint8":
		return fn == "Coal"
	case "string":
		return fn == "Compare" || fn == "Min" || fn == "Max" || fn == "Coal"
	}
	return false
}

// flipProcs switches GOMAXPROCS between 2 and 7 until stop is closed; the previous value is restored.
func flipProcs(stop chan struct{}, done *sync.WaitGroup, flips *atomic.Int64) {
	defer done.Done()
	old := runtime.GOMAXPROCS(2)
	defer runtime.GOMAXPROCS(old)
	for n := 7; ; n = 9 - n {
		select {
		case <-stop:
			return
		default:
		}
		runtime.GOMAXPROCS(n)
		flips.Add(1)
		time.Sleep(30 * time.Microsecond)
	}
}

func RunHuge(c Huge) pbt.Outcome {
	if c.N < 1 || c.N > maxHuge || c.Pos < 0 || c.Pos >= c.N || !hugeFnOK(c.Fn, c.T) || c.Seed < 0 {
		return malformed()
	}
	var flips atomic.Int64
	if c.Flip {
		stop := make(chan struct{})
		var wg sync.WaitGroup
		wg.Add(1)
		go flipProcs(stop, &wg, &flips)
		defer func() { close(stop); wg.Wait() }()
		for flips.Load() == 0 {
			runtime.Gosched()
		}
	}
	var msg string
	switch c.T {
	case "uint8":
		msg = hugeByteType[uint8](c, false)
	case "int8":
		msg = hugeByteType[int8](c, true)
	case "myUint8":
		msg = hugeByteType[myUint8](c, false)
	case "myInt8":
		msg = hugeByteType[myInt8](c, true)
	case "bool":
		msg = hugeCoal(c, func(int) bool { return true })
	case "byteBox":
		msg = hugeCoal(c, func(i int) byteBox { return byteBox{uint8(i)} })
	case "[1]uint8":
		msg = hugeCoal(c, func(i int) [1]uint8 { return [1]uint8{uint8(i)} })
	case "string":
		msg = hugeString(c)
	}
	if msg != "" {
		if c.Flip {
			msg += " (while another goroutine switches runtime.GOMAXPROCS between 2 and 7)"
		}
		return pbt.Fail("%s", msg)
	}
	labels := []string{"fn:" + c.Fn, "type:" + c.T, "huge:n=" + pow2Class(c.N), fmt.Sprintf("gomaxprocs-flipping:%v", c.Flip)}
	switch {
	case c.Pos == 0:
		labels = append(labels, "special-at:first")
	case c.Pos == c.N-1:
		labels = append(labels, "special-at:last")
	case c.Pos >= 1<<22:
		labels = append(labels, "special-at:beyond-2^22")
	default:
		labels = append(labels, "special-at:inside")
	}
	return pbt.Outcome{Labels: labels, NonTrivial: c.N >= 1<<22-1, Evals: 1}
}

func hugeByteType[T oneByte](c Huge, signed bool) string {
	if c.Fn == "Coal" {
		return hugeCoal(c, func(i int) T { return T(i) })
	}
	return hugeOrdered[T](c, signed)
}

var hugeSizes = []int{1<<22 - 1, 1 << 22, 1<<22 + 1, 1 << 23, 1<<23 + 1, 1<<24 - 1, 1 << 24, 1<<24 + 1}

func hugePos(n, k int) int {
	switch k % 6 {
	case 0:
		return n - 1
	case 1:
		return 0
	case 2:
		return min(n-1, 1<<22) // first element of the second piece of 2^22
	case 3:
		return min(n-1, 1<<22-1)
	case 4:
		return n / 2
	}
	return n - 2
}

func enumHuge(shard, shards int, tier string, yield func(Huge) bool) {
	k := 0
	for _, fn := range []string{"Min", "Max", "Sum", "Product", "Coal", "Compare"} {
		ti := 0
		for _, n := range hugeSizes {
			// quick: every size with one type per function (rotating), thorough: with every type
			for range hugeTypes {
				t := hugeTypes[ti%len(hugeTypes)]
				ti++
				if !hugeFnOK(fn, t) {
					continue
				}
				mine := k%shards == shard
				k++
				if mine && !yield(Huge{Fn: fn, T: t, N: n, Pos: hugePos(n, k), Seed: k, Flip: k%3 == 0}) {
					return
				}
				if tier != "thorough" {
					break
				}
			}
		}
	}
}

func genHuge(t *rapid.T) Huge {
	c := Huge{Fn: rapid.SampledFrom([]string{"Min", "Max", "Sum", "Product", "Coal", "Compare"}).Draw(t, "fn")}
	var ts []string
	for _, x := range hugeTypes {
		if hugeFnOK(c.Fn, x) {
			ts = append(ts, x)
		}
	}
	c.T = rapid.SampledFrom(ts).Draw(t, "type")
	k := rapid.IntRange(20, 24).Draw(t, "log2")
	c.N = 1<<k + rapid.IntRange(-2, 2).Draw(t, "delta")
	c.Pos = hugePos(c.N, rapid.IntRange(0, 5).Draw(t, "pos-kind"))
	if rapid.Bool().Draw(t, "pos-any") {
		c.Pos = rapid.IntRange(0, c.N-1).Draw(t, "pos")
	}
	c.Seed = rapid.IntRange(0, 1000).Draw(t, "seed")
	c.Flip = rapid.IntRange(0, 3).Draw(t, "flip") == 0
	return c
}

var specHuge = pbt.Register(&pbt.Spec[Huge]{
	Property: "C20", Name: "C20.huge",
	Rule: "grid + rapid: one call of Min, Max, Sum, Product, Coal with 2^22-1, 2^22, 2^22+1, 2^23, 2^23+1, 2^24-1, 2^24, 2^24+1 (rapid: 2^20..2^24 +-2) arguments of ONE BYTE each (uint8, int8, named types over them; Coal also bool, struct{B uint8}, [1]uint8), " +
		"data from a formula of (seed, i) with the unique minimum / maximum / first non-zero at the last, first, 2^22-th, (2^22-1)-th, middle index (one Coal case in four: all zero); Compare, Less, Min, Max, Coal on two strings of that many bytes differing at that byte only; " +
		"one case in three while another goroutine switches runtime.GOMAXPROCS between 2 and 7 in a loop. Reference: a plain loop with the built-in operators; the arguments must be unchanged afterwards. Crashy: a recursion per element or per chunk dies with " +
		"'fatal error: stack overflow', which the driver reports for the running case. non-trivial = at least 2^22-1 arguments / bytes",
	Gen: genHuge, Enum: enumHuge, Run: RunHuge,
	Quick: 12, Thorough: 150, Crashy: true,
})
