package c11

import (
	"testing"
	"time"

	"pgregory.net/rapid"
	"verifharness/internal/pbt"
)

// C11.par: Bimaps of 2^13 .. 2^16 (thorough: .. 2^18, and 2^20) pairs, one below / at / one above every power of two,
// each under GOMAXPROCS = 1, 2, 3, 5, 6, 7 and the machine's default. Bulk paths that only start at large sizes
// are typically chunked or parallel, and their behaviour then depends on the number of Ps (chunk remainders,
// helper goroutines that have not started yet on a single P, ...). Same machine and oracle as C11.big (RunBig);
// single calls are checked after the call only ("lean") so that a case with 65537 pairs stays around 0.1 s.
//
// Every Clone is looked at over the whole universe immediately after it returned (RunBig), before the calling
// goroutine does anything that could let another goroutine run.
func parSizes(tier string) []int {
	top := 16
	if tier == "thorough" {
		top = 18
	}
	var s []int
	for p := 13; p <= top; p++ {
		s = append(s, 1<<p-1, 1<<p, 1<<p+1)
	}
	return s
}

var parProcs = []int{1, 2, 3, 5, 6, 7, 0}

func parScripts(n int) [][]BStep {
	q := func(d int) int { return n / d }
	return [][]BStep{
		{ // Clone of a big map (twice: the second one from a map that has been cloned already), both sides mutated, Range, Clear
			{K: "fill", N: n}, {K: "clone", A: 1}, {K: "churn", N: 8}, {K: "switch", A: 0}, {K: "churn", N: 8}, {K: "range"}, {K: "clone", A: 0}, {K: "clear"}, {K: "fill", N: 3, A: 1},
		},
		{ // across the size from below and from above, Clone on either side of it; Clone inside a Range callback; Clear of the big map with a clone alive
			{K: "fill", N: n - 2, A: 2}, {K: "clone", A: 0}, {K: "fill", N: n + 1}, {K: "clone", A: 0}, {K: "drain", N: n - 2, A: 2}, {K: "nested", A: 3}, {K: "clear"}, {K: "range"}, {K: "switch", A: 2}, {K: "drain", N: q(2) - 1, A: 1}, {K: "clone", A: 1}, {K: "churn", N: 8},
		},
		{ // an independent big Bimap next to the first one, Clone of each, GC
			{K: "fill", N: n}, {K: "new", A: 1}, {K: "fill", N: n + 1, A: 1}, {K: "gc"}, {K: "clone", A: 0}, {K: "switch", A: 0}, {K: "clone", A: 1}, {K: "drain", N: n - 3, A: 3}, {K: "range", A: n - 4},
		},
	}
}

var specPar = pbt.Register(&pbt.Spec[BigCase]{
	Property: "C11", Name: "C11.par",
	Rule: "the C11.big machine (bulk steps, model, full-universe verification of every box after every step and of every clone immediately after Clone returned) on Bimaps of " +
		"2^p-1, 2^p, 2^p+1 pairs for p = 13..16 (thorough ..18), each size under runtime.GOMAXPROCS 1, 2, 3, 5, 6, 7 and the default (16 here), set for the duration of the case; " +
		"3 scripts: Clone of the big map, clone and original mutated, second Clone, Range, Clear | the size approached from below and crossed upwards by Adds and downwards by 3-pair evictions with Clones on either side, Clone inside a Range callback, Clear while a clone is alive | " +
		"two independent big Bimaps holding the same keys and values in different pairings, Clone of each, runtime.GC(); quick runs script (size index + procs index) mod 3 for every (size, procs) plus script 0 for every size under GOMAXPROCS 1, thorough all three and the first script on 2^20-1, 2^20, 2^20+1 pairs under GOMAXPROCS 1, 3 and the default; " +
		"lean checking: every 8th single call, and every one while Len is within 4 of a power of two, is checked after the call (touched keys/values + Len); at the end of a step the box the step worked on is verified over the whole universe, the other boxes by Len + every key/value the step touched + 512 evenly spread keys and values; the process writes the current case to disk first, so that a runtime abort (\"concurrent map writes\") is attributed to it; non-trivial = some box reached >= 65 pairs",
	Enum: func(shard, shards int, tier string, yield func(BigCase) bool) {
		idx := 0
		for ni, n := range parSizes(tier) {
			for pi, procs := range parProcs {
				for si, steps := range parScripts(n) {
					if tier != "thorough" && si != (ni+pi)%3 && !(si == 0 && procs == 1) {
						continue
					}
					idx++
					if shards > 1 && idx%shards != shard {
						continue
					}
					if !yield(BigCase{Seed: n*131 + pi*7 + si, Steps: steps, Procs: procs, Lean: true}) {
						return
					}
				}
			}
		}
		if tier == "thorough" { // one more magnitude: around 2^20 pairs, first script only (a few seconds and ~0.7 GB per case)
			for _, n := range []int{1<<20 - 1, 1 << 20, 1<<20 + 1} {
				for _, procs := range []int{1, 3, 0} {
					idx++
					if shards > 1 && idx%shards != shard {
						continue
					}
					if !yield(BigCase{Seed: n*131 + procs, Steps: parScripts(n)[0], Procs: procs, Lean: true}) {
						return
					}
				}
			}
		}
	},
	Gen: func(t *rapid.T) BigCase {
		sizes := parSizes("quick")
		n := rapid.SampledFrom(sizes).Draw(t, "n") + rapid.SampledFrom([]int{0, 0, 0, -2, 2, 100, -100}).Draw(t, "dn")
		c := BigCase{Seed: rapid.IntRange(0, 1<<20).Draw(t, "seed"), Lean: true}
		c.Procs = rapid.SampledFrom(parProcs).Draw(t, "procs")
		c.Steps = append(c.Steps, BStep{K: "fill", N: n, A: rapid.SampledFrom([]int{0, 0, 1, 2, 3}).Draw(t, "fillmode")})
		targets := []int{n / 2, n - 2, n - 1, n, n + 1, n + 2}
		step := rapid.Custom(func(t *rapid.T) BStep {
			k := rapid.SampledFrom([]string{"fill", "drain", "churn", "clear", "clone", "clone", "clone", "switch", "range", "nested", "new", "gc"}).Draw(t, "k")
			st := BStep{K: k}
			switch k {
			case "fill":
				st.N, st.A = rapid.SampledFrom(targets).Draw(t, "n"), rapid.IntRange(0, 3).Draw(t, "a")
			case "drain":
				st.N, st.A = rapid.SampledFrom(targets).Draw(t, "n"), rapid.IntRange(0, 4).Draw(t, "a")
			case "churn":
				st.N = rapid.IntRange(1, 16).Draw(t, "n")
			case "clone", "new":
				st.A = rapid.IntRange(0, 1).Draw(t, "a")
			case "switch":
				st.A = rapid.IntRange(0, 2).Draw(t, "a")
			case "range":
				st.A = rapid.SampledFrom([]int{0, 1, n - 1, n, n + 1}).Draw(t, "a")
			case "nested":
				st.A = rapid.SampledFrom([]int{0, 2, 3, 4}).Draw(t, "a") // not 1: 24 full inner Ranges of a 65537-pair map
			}
			return st
		})
		c.Steps = append(c.Steps, rapid.SliceOfN(step, 1, 6).Draw(t, "steps")...)
		return c
	},
	Run: RunBig, Quick: 6, Thorough: 40,
	Crashy: true, Retries: 3, CaseCPU: 120 * time.Second,
})

func TestC11Par(t *testing.T) { pbt.Check(t, specPar) }
