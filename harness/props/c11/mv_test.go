package c11

import (
	"fmt"
	"testing"

	"gopkg.in/typ.v4/maps"
	"verifharness/internal/pbt"
)

// VCase: (mv) the methods are called through METHOD VALUES bound while the Bimap was still its zero value (or after K
// pairs), across later Adds and removals: a method value refers to the Bimap, not to a copy of it. (grow) a Range callback
// that adds NEW pairs (no eviction): every pair that was there from the start is still visited exactly once.
type VCase struct {
	Mode string `json:"mode"` // mv | grow
	K    int    `json:"k"`    // mv: pairs present when the method values are bound; grow: pairs present at the start
	N    int    `json:"n"`    // mv: pairs added afterwards; grow: pairs the callback adds
}

func RunMV(c VCase) pbt.Outcome {
	var b maps.Bimap[int, int]
	model := map[int]int{}
	add := func(k, v int) {
		b.Add(k, v)
		for mk, mv := range model {
			if mv == v && mk != k {
				delete(model, mk)
			}
		}
		model[k] = v
	}
	if c.Mode == "grow" {
		for i := 0; i < c.K; i++ {
			add(i, 1000000+i)
		}
		visits := map[int]int{}
		added := 0
		b.Range(func(k, v int) bool {
			visits[k]++
			if added < c.N {
				b.Add(5000000+added, 7000000+added) // a brand-new pair: evicts nothing
				added++
			}
			return true
		})
		for i := 0; i < c.K; i++ {
			if visits[i] != 1 {
				return pbt.Fail("Range over %d pairs whose callback adds %d brand-new pairs (evicting nothing): pair %d, present from the start and never touched, was visited %d times", c.K, c.N, i, visits[i])
			}
		}
		for k, n := range visits {
			if n > 1 {
				return pbt.Fail("Range visited key %d %d times", k, n)
			}
		}
		if b.Len() != c.K+added {
			return pbt.Fail("after the Range Len = %d, want %d", b.Len(), c.K+added)
		}
		return pbt.Outcome{Evals: 1, NonTrivial: c.K >= 2 && c.N >= 1, Labels: []string{"range-callback-adds-pairs"}}
	}
	for i := 0; i < c.K; i++ {
		add(i, 100+i)
	}
	getF, getR, conF, conR, rng, clone, length := b.GetForward, b.GetReverse, b.ContainsForward, b.ContainsReverse, b.Range, b.Clone, b.Len
	check := func(stage string) string {
		if length() != len(model) {
			return fmt.Sprintf("%s: Len through its method value = %d, want %d", stage, length(), len(model))
		}
		for k, v := range model {
			if gv, ok := getF(k); !ok || gv != v {
				return fmt.Sprintf("%s: GetForward(%d) through a method value bound when the Bimap held %d pairs = (%d,%v), want (%d,true)", stage, k, c.K, gv, ok, v)
			}
			if gk, ok := getR(v); !ok || gk != k {
				return fmt.Sprintf("%s: GetReverse(%d) through its method value = (%d,%v), want (%d,true)", stage, v, gk, ok, k)
			}
			if !conF(k) || !conR(v) {
				return fmt.Sprintf("%s: ContainsForward(%d)/ContainsReverse(%d) through their method values = %v/%v", stage, k, v, conF(k), conR(v))
			}
		}
		n := 0
		rng(func(k, v int) bool {
			n++
			return true
		})
		if n != len(model) {
			return fmt.Sprintf("%s: Range through its method value visits %d pairs, want %d", stage, n, len(model))
		}
		cl := clone()
		if cl.Len() != len(model) {
			return fmt.Sprintf("%s: Clone through its method value has %d pairs, want %d", stage, cl.Len(), len(model))
		}
		return ""
	}
	if msg := check("right after binding"); msg != "" {
		return pbt.Fail("%s", msg)
	}
	for i := 0; i < c.N; i++ {
		add(c.K+i, 100+c.K+i)
		if i%3 == 2 {
			b.RemoveForward(c.K + i - 1)
			delete(model, c.K+i-1)
		}
		if msg := check(fmt.Sprintf("after %d later calls", i+1)); msg != "" {
			return pbt.Fail("%s", msg)
		}
	}
	b.Clear()
	model = map[int]int{}
	add(1, 2)
	if msg := check("after Clear and one Add"); msg != "" {
		return pbt.Fail("%s", msg)
	}
	return pbt.Outcome{Evals: c.N + 2, NonTrivial: c.N >= 1, Labels: []string{fmt.Sprintf("method-values-bound-at-%d-pairs", c.K)}}
}

var specMV = pbt.Register(&pbt.Spec[VCase]{
	Property: "C11", Name: "C11.mv",
	Rule: "enumerated: GetForward, GetReverse, ContainsForward, ContainsReverse, Range, Clone and Len called through METHOD VALUES bound when the Bimap held 0, 1, 9 or 1100 pairs, across 1..40 later Adds / removals / a Clear (a method value refers to the Bimap itself); " +
		"Range over 2..3000 pairs whose callback adds 1..2000 brand-new pairs (evicting nothing): every pair present from the start is visited exactly once, nothing twice",
	Enum: func(shard, shards int, tier string, yield func(VCase) bool) {
		i := 0
		for _, k := range []int{0, 1, 9, 1100} {
			for _, n := range []int{1, 5, 40} {
				i++
				if (i-1)%shards == shard && !yield(VCase{"mv", k, n}) {
					return
				}
			}
		}
		for _, k := range []int{2, 9, 100, 1000, 1025, 3000} {
			for _, n := range []int{1, 8, 200, 2000} {
				i++
				if (i-1)%shards == shard && !yield(VCase{"grow", k, n}) {
					return
				}
			}
		}
	},
	Run: RunMV, Exhaustive: true, Replicas: 2, ReplicaEvery: 4,
})

func TestC11MV(t *testing.T) { pbt.Check(t, specMV) }
