package c11

import (
	"fmt"
	"math"
	"runtime"
	"testing"

	"gopkg.in/typ.v4/maps"
	"pgregory.net/rapid"
	"verifharness/internal/pbt"
)

// C11.big: Bimaps holding hundreds to thousands of pairs, so that any size
// threshold inside the implementation (bulk paths, rebuilds after growth or
// shrinkage, scratch buffers, "large map" special cases) is crossed, in both
// directions and by every kind of call.
//
// A case is a script of bulk steps; keys and values are chosen at run time by
// a deterministic LCG seeded from the case (Run is a pure function of the case)
// from: the live pairs of the box, keys/values freed earlier in that box
// (re-use after removal / eviction / Clear) and never-used ones.
//
//	fill   N A  single Adds until Len = N. A mod 4: 0 fresh pairs only | 1 every fresh Add followed by a same-pair / key-colliding / value-colliding Add (rotating)
//	            | 2 random mix (fresh, key-colliding, value-colliding, same pair, removals of absent keys/values) | 3 two fresh Adds then one doubly-colliding Add (3-pair eviction), repeated
//	drain  N A  single calls until Len = N. A mod 5: 0 RemoveForward | 1 RemoveReverse | 2 doubly-colliding Add(k1, value of k2) (each shrinks the map by one: EVERY size on the way is crossed by a 3-pair eviction)
//	            | 3 rotating RemoveForward, key-colliding Add, RemoveReverse, value-colliding Add, doubly-colliding Add | 4 random mix of all nine single calls
//	churn  N    N random single calls (all nine kinds) at the current size
//	clear       Clear
//	clone  A    Clone the current box (max 3 boxes; the oldest other box is dropped); A odd: continue on the clone.
//	            The clone is verified over the whole universe IMMEDIATELY after Clone returned (before any other call), then every box.
//	new    A    a new INDEPENDENT zero-value Bimap becomes a box (placed like a clone); A odd: continue on it
//	gc          runtime.GC()
//	switch A    continue on box A mod live
//	range  A    Range; A = 0 all, else f returns false at call 1 + (A-1) mod (Len+1)  (so Len+1 = never reached)
//	nested A    Range whose callback only reads Bimaps. A mod 5: 0 full inner Range at outer calls 1, 2, Len/2, Len | 1 full inner Range at every outer call (Len <= 96) or at 24 evenly spread calls
//	            | 2 inner Range stopped after 1..3 visits at every outer call | 3 Len + lookups at every call, Clone (fully verified) at the first and the last call
//	            | 4 Ranges over the OTHER live boxes (clones / originals of this one): full at outer calls 1, Len/2, Len, early-stopped at every other call
//
// Oracle: model (two Go maps used for lookup only + a slice of live keys; never iterated where order matters).
// Before and after every single call the touched keys and values (k, v, the old partner of k, the old owner of v) plus one
// rotating sample are compared (GetForward/GetReverse/Contains*, inverse on the library's own answers) and Len is compared;
// the whole universe (every key and value ever used in the case + one never used) is verified for every box at the end of
// every step, after every call while the universe is <= 48, and whenever Len has just changed to a power of two or to
// peak/2, peak/4, peak/8 (and +-1 of these while the universe is <= 600).
type BStep struct {
	K string `json:"k"`
	N int    `json:"n,omitempty"`
	A int    `json:"a,omitempty"`
}

type BigCase struct {
	Seed  int     `json:"seed"`
	Steps []BStep `json:"steps"`
	// Procs > 0: the case runs under runtime.GOMAXPROCS(Procs) (restored afterwards).
	Procs int `json:"procs,omitempty"`
	// Lean (for maps of tens of thousands of pairs): every 8th single call, and every one while Len is within 4 of a power of two, is checked after the call (touched keys/values + Len),
	// no whole-universe checks at size boundaries inside a step, and at the end of a step only the box the step worked on is
	// verified over the whole universe (the others: Len, everything the step touched, 512 spread keys and values).
	Lean bool `json:"lean,omitempty"`
}

const vbase = 1000000

// keyOf / valOf spread the i-th key / value ever used over the int range: small non-negative numbers, the top of
// the range downwards and the bottom of the range upwards (injective for i < 2^40).
func keyOf(i int) K {
	switch i % 3 {
	case 1:
		return K(math.MaxInt - i/3)
	case 2:
		return K(math.MinInt + i/3)
	}
	return K(i / 3)
}

func valOf(i int) V {
	switch i % 3 {
	case 1:
		return V(math.MinInt + i/3)
	case 2:
		return V(math.MaxInt - i/3)
	}
	return V(vbase + i/3)
}

type bigBox struct {
	b     *maps.Bimap[K, V]
	fwd   map[K]V
	rev   map[V]K
	keys  []K // live keys (deterministic order: insertion with swap-removal)
	pos   map[K]int
	freeK []K
	freeV []V
	peak  int // largest Len since the box was created / cleared
}

func newBigBox(b *maps.Bimap[K, V]) *bigBox {
	return &bigBox{b: b, fwd: map[K]V{}, rev: map[V]K{}, pos: map[K]int{}}
}

func newBigBoxN(b *maps.Bimap[K, V], n int) *bigBox {
	return &bigBox{b: b, fwd: make(map[K]V, n), rev: make(map[V]K, n), pos: make(map[K]int, n)}
}

func (x *bigBox) size() int { return len(x.keys) }

func (x *bigBox) dropKey(k K) {
	i := x.pos[k]
	last := len(x.keys) - 1
	x.keys[i] = x.keys[last]
	x.pos[x.keys[i]] = i
	x.keys = x.keys[:last]
	delete(x.pos, k)
	delete(x.fwd, k)
}

func (x *bigBox) add(k K, v V) {
	if ov, ok := x.fwd[k]; ok {
		if ov == v {
			return
		}
		delete(x.rev, ov)
		x.freeV = append(x.freeV, ov)
	}
	if ok2, ok := x.rev[v]; ok {
		x.dropKey(ok2)
		x.freeK = append(x.freeK, ok2)
	}
	if _, live := x.pos[k]; !live {
		x.pos[k] = len(x.keys)
		x.keys = append(x.keys, k)
	}
	x.fwd[k] = v
	x.rev[v] = k
	if len(x.keys) > x.peak {
		x.peak = len(x.keys)
	}
}

func (x *bigBox) removeKey(k K) {
	v, ok := x.fwd[k]
	if !ok {
		return
	}
	delete(x.rev, v)
	x.dropKey(k)
	x.freeK = append(x.freeK, k)
	x.freeV = append(x.freeV, v)
}

func (x *bigBox) clear() {
	for _, k := range x.keys {
		x.freeK = append(x.freeK, k)
		x.freeV = append(x.freeV, x.fwd[k])
	}
	x.keys = nil
	x.fwd, x.rev, x.pos = map[K]V{}, map[V]K{}, map[K]int{}
	x.peak = 0
}

func (x *bigBox) cloneModel(b *maps.Bimap[K, V]) *bigBox {
	y := newBigBoxN(b, len(x.keys))
	y.keys = append([]K(nil), x.keys...)
	for i, k := range y.keys {
		v := x.fwd[k]
		y.pos[k] = i
		y.fwd[k] = v
		y.rev[v] = k
	}
	y.freeK = append([]K(nil), x.freeK...)
	y.freeV = append([]V(nil), x.freeV...)
	y.peak = len(y.keys)
	return y
}

// single call kinds
const (
	sAddFresh = iota
	sAddSame
	sAddKeyColl
	sAddValColl
	sAddBoth
	sRemFwd
	sRemRev
	sRemFwdAbsent
	sRemRevAbsent
	nSingle
)

type bigRun struct {
	boxes        []*bigBox
	cur          int
	nextK, nextV int
	s            uint64
	lean         bool
	touchedK     []K
	touchedV     []V
	news, gcs    int
	evals        int
	calls        int
	step         int
	stepWhat     string
	// label counters
	maxPeak, clearMax, cloneMax, nestedMax, rangeMax, evictMax, evictBelowQuarter int
	kinds                                                                         [nSingle]int
	reuse                                                                         int
}

func (r *bigRun) rand(n int) int {
	r.s = r.s*6364136223846793005 + 1442695040888963407
	return int((r.s >> 33) % uint64(n))
}

func (r *bigRun) freshKey(x *bigBox) K {
	if n := len(x.freeK); n > 0 && r.rand(2) == 0 {
		i := r.rand(n)
		k := x.freeK[i]
		x.freeK[i] = x.freeK[n-1]
		x.freeK = x.freeK[:n-1]
		r.reuse++
		return k
	}
	k := keyOf(r.nextK)
	r.nextK++
	return k
}

func (r *bigRun) freshVal(x *bigBox) V {
	if n := len(x.freeV); n > 0 && r.rand(2) == 0 {
		i := r.rand(n)
		v := x.freeV[i]
		x.freeV[i] = x.freeV[n-1]
		x.freeV = x.freeV[:n-1]
		r.reuse++
		return v
	}
	v := valOf(r.nextV)
	r.nextV++
	return v
}

func (r *bigRun) where(bi int) string {
	return fmt.Sprintf("step %d (%s), call %d, box %d", r.step, r.stepWhat, r.calls, bi)
}

func (r *bigRun) checkKey(x *bigBox, bi int, k K, when string) string {
	wv, wok := x.fwd[k]
	gv, gok := x.b.GetForward(k)
	r.evals++
	if gok != wok || (wok && gv != wv) {
		return fmt.Sprintf("%s, %s: GetForward(%d) = (%d,%v), want (%d,%v) (Len %d)", r.where(bi), when, k, gv, gok, wv, wok, x.size())
	}
	if c := x.b.ContainsForward(k); c != wok {
		return fmt.Sprintf("%s, %s: ContainsForward(%d) = %v, want %v (Len %d)", r.where(bi), when, k, c, wok, x.size())
	}
	if gok {
		bk, bok := x.b.GetReverse(gv)
		if !bok || bk != k {
			return fmt.Sprintf("%s, %s: GetForward(%d) = (%d,true) but GetReverse(%d) = (%d,%v): directions are not inverse (Len %d)", r.where(bi), when, k, gv, gv, bk, bok, x.size())
		}
	}
	return ""
}

func (r *bigRun) checkVal(x *bigBox, bi int, v V, when string) string {
	wk, wok := x.rev[v]
	gk, gok := x.b.GetReverse(v)
	r.evals++
	if gok != wok || (wok && gk != wk) {
		return fmt.Sprintf("%s, %s: GetReverse(%d) = (%d,%v), want (%d,%v) (Len %d)", r.where(bi), when, v, gk, gok, wk, wok, x.size())
	}
	if c := x.b.ContainsReverse(v); c != wok {
		return fmt.Sprintf("%s, %s: ContainsReverse(%d) = %v, want %v (Len %d)", r.where(bi), when, v, c, wok, x.size())
	}
	if gok {
		fv, fok := x.b.GetForward(gk)
		if !fok || fv != v {
			return fmt.Sprintf("%s, %s: GetReverse(%d) = (%d,true) but GetForward(%d) = (%d,%v): directions are not inverse (Len %d)", r.where(bi), when, v, gk, gk, fv, fok, x.size())
		}
	}
	return ""
}

// full verifies box bi over every key and value ever used in the case (+1 never used).
func (r *bigRun) full(bi int, when string) string {
	x := r.boxes[bi]
	if got := x.b.Len(); got != x.size() {
		return fmt.Sprintf("%s, %s: Len() = %d, want %d", r.where(bi), when, got, x.size())
	}
	for i := 0; i <= r.nextK; i++ {
		if m := r.checkKey(x, bi, keyOf(i), when); m != "" {
			return m
		}
	}
	for i := 0; i <= r.nextV; i++ {
		if m := r.checkVal(x, bi, valOf(i), when); m != "" {
			return m
		}
	}
	return ""
}

func (r *bigRun) fullAll(when string) string {
	for bi := range r.boxes {
		if m := r.full(bi, when); m != "" {
			return m
		}
	}
	return ""
}

// probe is the cheaper check of lean cases for a box the step did not work on: Len, every key and value the step
// touched in the box it did work on, and 512 keys and values spread evenly over the universe.
func (r *bigRun) probe(bi int, when string) string {
	x := r.boxes[bi]
	if got := x.b.Len(); got != x.size() {
		return fmt.Sprintf("%s, %s: Len() = %d, want %d", r.where(bi), when, got, x.size())
	}
	for _, k := range r.touchedK {
		if m := r.checkKey(x, bi, k, when); m != "" {
			return m
		}
	}
	for _, v := range r.touchedV {
		if m := r.checkVal(x, bi, v, when); m != "" {
			return m
		}
	}
	const samples = 512
	for j := 0; j < samples; j++ {
		if m := r.checkKey(x, bi, keyOf(j*(r.nextK+1)/samples), when); m != "" {
			return m
		}
		if m := r.checkVal(x, bi, valOf(j*(r.nextV+1)/samples), when); m != "" {
			return m
		}
	}
	return ""
}

func nearPow2(n, d int) bool {
	for t := 64; t <= n+d; t <<= 1 {
		if n >= t-d && n <= t+d {
			return true
		}
	}
	return false
}

func boundary(size, peak, universe int) bool {
	if universe <= 48 {
		return true
	}
	near := universe <= 600
	hit := func(t int) bool {
		if t < 4 {
			return false
		}
		return size == t || (near && (size == t-1 || size == t+1))
	}
	for t := 8; t <= size+1; t <<= 1 {
		if hit(t) {
			return true
		}
	}
	return hit(peak/2) || hit(peak/4) || hit(peak/8)
}

// single executes one single call of the given kind on the current box
// (falling back to a kind that is possible at the current size).
func (r *bigRun) single(kind int) string {
	bi := r.cur
	x := r.boxes[bi]
	n := x.size()
	switch {
	case n == 0 && (kind == sAddSame || kind == sAddKeyColl || kind == sAddValColl || kind == sAddBoth || kind == sRemFwd || kind == sRemRev):
		kind = sAddFresh
	case n == 1 && kind == sAddBoth:
		kind = sRemFwd
	}
	var (
		k     K
		v     V
		isAdd bool
		what  string
	)
	switch kind {
	case sAddFresh:
		k, v, isAdd = r.freshKey(x), r.freshVal(x), true
	case sAddSame:
		k = x.keys[r.rand(n)]
		v, isAdd = x.fwd[k], true
	case sAddKeyColl:
		k, v, isAdd = x.keys[r.rand(n)], r.freshVal(x), true
	case sAddValColl:
		k, v, isAdd = r.freshKey(x), x.fwd[x.keys[r.rand(n)]], true
	case sAddBoth:
		i := r.rand(n)
		j := (i + 1 + r.rand(n-1)) % n
		k, v, isAdd = x.keys[i], x.fwd[x.keys[j]], true
	case sRemFwd:
		k = x.keys[r.rand(n)]
		v = x.fwd[k]
	case sRemRev:
		k = x.keys[r.rand(n)]
		v = x.fwd[k]
	case sRemFwdAbsent:
		if len(x.freeK) > 0 && r.rand(2) == 0 {
			k = x.freeK[r.rand(len(x.freeK))]
		} else {
			k = keyOf(r.nextK)
		}
	case sRemRevAbsent:
		if len(x.freeV) > 0 && r.rand(2) == 0 {
			v = x.freeV[r.rand(len(x.freeV))]
		} else {
			v = valOf(r.nextV)
		}
	}
	r.kinds[kind]++
	r.calls++
	// touched entries: k, v, the old partner of k and the old owner of v
	tk := []K{k}
	tv := []V{v}
	if ov, ok := x.fwd[k]; ok {
		tv = append(tv, ov)
	}
	if ok2, ok := x.rev[v]; ok {
		tk = append(tk, ok2)
	}
	if kind == sRemRevAbsent {
		tk = tk[:0]
	}
	if kind == sRemFwdAbsent {
		tv = tv[:0]
	}
	// one rotating sample elsewhere
	tk = append(tk, keyOf((r.calls*7919)%(r.nextK+1)))
	tv = append(tv, valOf((r.calls*104729)%(r.nextV+1)))
	check := func(when string) string {
		for _, q := range tk {
			if m := r.checkKey(x, bi, q, when); m != "" {
				return m
			}
		}
		for _, q := range tv {
			if m := r.checkVal(x, bi, q, when); m != "" {
				return m
			}
		}
		if got := x.b.Len(); got != x.size() {
			return fmt.Sprintf("%s, %s: Len() = %d, want %d", r.where(bi), when, got, x.size())
		}
		return ""
	}
	describe := func() string {
		switch kind {
		case sRemFwd, sRemFwdAbsent:
			return fmt.Sprintf("RemoveForward(%d)", k)
		case sRemRev, sRemRevAbsent:
			return fmt.Sprintf("RemoveReverse(%d)", v)
		}
		return fmt.Sprintf("Add(%d,%d)", k, v)
	}
	if r.lean { // remember what this step touched: the boxes that are not fully verified at the end of the step are probed there
		if len(r.touchedK) < 4096 {
			r.touchedK = append(r.touchedK, tk...)
			r.touchedV = append(r.touchedV, tv...)
		}
	} else {
		what = describe()
		if m := check("before " + what); m != "" {
			return m
		}
	}
	switch {
	case isAdd:
		if kind == sAddBoth {
			if n > r.evictMax {
				r.evictMax = n
			}
			if x.peak >= 64 && n <= x.peak/4+1 {
				r.evictBelowQuarter++
			}
		}
		x.b.Add(k, v)
		x.add(k, v)
	case kind == sRemFwd || kind == sRemFwdAbsent:
		x.b.RemoveForward(k)
		x.removeKey(k)
	default:
		x.b.RemoveReverse(v)
		if ok2, ok := x.rev[v]; ok {
			x.removeKey(ok2)
		}
	}
	if x.peak > r.maxPeak {
		r.maxPeak = x.peak
	}
	if r.lean {
		// every 8th call, and every call while Len is within 4 of a power of two (or below 64), is checked; the text is only built when something is wrong
		if sz := x.size(); r.calls%8 == 0 || sz < 64 || nearPow2(sz, 4) {
			if check("") != "" {
				return check("after " + describe())
			}
		}
		return ""
	}
	if m := check("after " + what); m != "" {
		return m
	}
	if x.size() != n || r.nextK+r.nextV <= 48 {
		if boundary(x.size(), x.peak, r.nextK+r.nextV) {
			if m := r.full(bi, "after "+what+" (Len now "+fmt.Sprint(x.size())+")"); m != "" {
				return m
			}
		}
	}
	return ""
}

// place makes y a live box: appended while fewer than 3 are alive, else it replaces a box other than the current one (alternating).
func (r *bigRun) place(y *bigBox, created int) int {
	at := len(r.boxes)
	if len(r.boxes) < 3 {
		r.boxes = append(r.boxes, y)
	} else {
		at = (r.cur + 1 + created%2) % 3
		r.boxes[at] = y
	}
	return at
}

// bigRange runs Range on box bi. stop <= 0: never stop. inner may be nil.
func (r *bigRun) bigRange(bi, stop int, name string, inner func(call int, k K, v V) string) string {
	x := r.boxes[bi]
	var seen map[K]struct{}
	calls, afterStop := 0, 0
	stopped := false
	msg := ""
	x.b.Range(func(k K, v V) bool {
		if stopped {
			afterStop++
			return false
		}
		calls++
		r.evals++
		if wv, ok := x.fwd[k]; !ok || wv != v {
			msg = fmt.Sprintf("%s: %s visited (%d,%d) at call %d, which is not a pair of the map (Len %d)", r.where(bi), name, k, v, calls, x.size())
			stopped = true
			return false
		}
		if seen == nil {
			seen = map[K]struct{}{}
		}
		if _, dup := seen[k]; dup {
			msg = fmt.Sprintf("%s: %s visited (%d,%d) twice (second time at call %d of %d pairs)", r.where(bi), name, k, v, calls, x.size())
			stopped = true
			return false
		}
		seen[k] = struct{}{}
		if inner != nil {
			if msg = inner(calls, k, v); msg != "" {
				stopped = true
				return false
			}
		}
		if stop > 0 && calls == stop {
			stopped = true
			return false
		}
		return true
	})
	if msg != "" {
		return msg
	}
	if afterStop > 0 {
		return fmt.Sprintf("%s: %s: f was called %d more time(s) after it returned false at call %d", r.where(bi), name, afterStop, calls)
	}
	want := x.size()
	if stop > 0 && stop < want {
		want = stop
	}
	if calls != want {
		return fmt.Sprintf("%s: %s (stop=%d) visited %d distinct pair(s), want %d (Len %d)", r.where(bi), name, stop, calls, want, x.size())
	}
	return ""
}

func (r *bigRun) nested(bi, variant int) string {
	x := r.boxes[bi]
	n := x.size()
	every := 1
	if n > 96 {
		every = (n + 23) / 24
	}
	inner := func(call int, k K, v V) string {
		switch variant {
		case 0:
			if call == 1 || call == 2 || call == n/2 || call == n {
				return r.bigRange(bi, 0, fmt.Sprintf("Range(all) nested in the callback of Range at its call %d", call), nil)
			}
		case 1:
			if call%every == 0 || call == 1 {
				return r.bigRange(bi, 0, fmt.Sprintf("Range(all) nested in the callback of Range at its call %d", call), nil)
			}
		case 2:
			return r.bigRange(bi, 1+call%3, fmt.Sprintf("Range nested in the callback of Range at its call %d", call), nil)
		case 4:
			if len(r.boxes) == 1 {
				return r.bigRange(bi, 1+call%3, fmt.Sprintf("Range nested in the callback of Range at its call %d", call), nil)
			}
			for o := range r.boxes {
				if o == bi {
					continue
				}
				stop := 1 + call%3
				if call == 1 || call == n/2 || call == n {
					stop = 0
				}
				if m := r.bigRange(o, stop, fmt.Sprintf("Range over box %d (related to box %d by Clone) nested in the callback of box %d's Range at its call %d", o, bi, bi, call), nil); m != "" {
					return m
				}
			}
		default:
			when := fmt.Sprintf("inside the Range callback at call %d", call)
			if got := x.b.Len(); got != n {
				return fmt.Sprintf("%s, %s: Len() = %d, want %d", r.where(bi), when, got, n)
			}
			if m := r.checkKey(x, bi, k, when); m != "" {
				return m
			}
			if m := r.checkVal(x, bi, v, when); m != "" {
				return m
			}
			if m := r.checkKey(x, bi, keyOf((call*7919)%(r.nextK+1)), when); m != "" {
				return m
			}
			if call == 1 || call == n {
				cl := x.b.Clone()
				y := x.cloneModel(&cl)
				r.boxes = append(r.boxes, y)
				m := r.full(len(r.boxes)-1, "Clone() taken "+when)
				r.boxes = r.boxes[:len(r.boxes)-1]
				return m
			}
		}
		return ""
	}
	return r.bigRange(bi, 0, fmt.Sprintf("Range(all) with read-only callback variant %d", variant), inner)
}

func RunBig(c BigCase) pbt.Outcome {
	r := &bigRun{s: uint64(c.Seed)*2654435761 + 12345, lean: c.Lean}
	if c.Procs > 0 {
		defer runtime.GOMAXPROCS(runtime.GOMAXPROCS(c.Procs))
	}
	var b0 maps.Bimap[K, V]
	r.boxes = []*bigBox{newBigBox(&b0)}
	var created int // boxes ever created (for dropping the oldest)
	for si, st := range c.Steps {
		r.step, r.stepWhat = si, fmt.Sprintf("%s n=%d a=%d", st.K, st.N, st.A)
		x := r.boxes[r.cur]
		worked := x
		r.touchedK, r.touchedV = r.touchedK[:0], r.touchedV[:0]
		switch st.K {
		case "fill":
			target := st.N
			if target < 0 {
				target = 0
			}
			mode := mod(st.A, 4)
			budget := 6*target + 64
			for i := 0; x.size() < target; i++ {
				kind := sAddFresh
				switch {
				case i >= budget:
				case mode == 1 && i%2 == 1:
					kind = []int{sAddSame, sAddKeyColl, sAddValColl}[(i/2)%3]
				case mode == 2:
					kind = []int{sAddFresh, sAddFresh, sAddFresh, sAddKeyColl, sAddValColl, sAddSame, sRemFwdAbsent, sRemRevAbsent}[r.rand(8)]
				case mode == 3 && i%3 == 2:
					kind = sAddBoth
				}
				if m := r.single(kind); m != "" {
					return pbt.Fail("%s", m)
				}
			}
		case "drain":
			target := st.N
			if target < 0 {
				target = 0
			}
			mode := mod(st.A, 5)
			budget := 6*(x.size()-target) + 64
			for i := 0; x.size() > target; i++ {
				kind := sRemFwd
				switch {
				case i >= budget:
				case mode == 1:
					kind = sRemRev
				case mode == 2:
					kind = sAddBoth
				case mode == 3:
					kind = []int{sRemFwd, sAddKeyColl, sRemRev, sAddValColl, sAddBoth}[i%5]
				case mode == 4:
					kind = []int{sRemFwd, sRemRev, sAddBoth, sAddBoth, sAddKeyColl, sAddValColl, sAddSame, sRemFwdAbsent, sRemRevAbsent}[r.rand(9)]
				}
				if m := r.single(kind); m != "" {
					return pbt.Fail("%s", m)
				}
			}
		case "churn":
			for i := 0; i < st.N && i < 5000; i++ {
				if m := r.single(r.rand(nSingle)); m != "" {
					return pbt.Fail("%s", m)
				}
			}
		case "clear":
			if x.size() > r.clearMax {
				r.clearMax = x.size()
			}
			r.calls++
			x.b.Clear()
			x.clear()
		case "clone":
			if x.size() > r.cloneMax {
				r.cloneMax = x.size()
			}
			r.calls++
			cl := x.b.Clone()
			y := x.cloneModel(&cl)
			// the clone must be complete the moment Clone returns: look at it before anything else happens
			r.boxes = append(r.boxes, y)
			m := r.full(len(r.boxes)-1, "immediately after Clone() of box "+fmt.Sprint(r.cur)+" returned")
			r.boxes = r.boxes[:len(r.boxes)-1]
			if m != "" {
				return pbt.Fail("%s", m)
			}
			created++
			at := r.place(y, created)
			if mod(st.A, 2) == 1 {
				r.cur = at
			}
		case "new":
			r.calls++
			r.news++
			var nb maps.Bimap[K, V]
			y := newBigBox(&nb)
			// keys and values freed in the current box are "used before" for the new one too
			// ... and so are its live ones: the two unrelated Bimaps will hold the same keys and values in different pairings
			y.freeK = append(append([]K(nil), x.freeK...), x.keys...)
			y.freeV = append([]V(nil), x.freeV...)
			for _, k := range x.keys {
				y.freeV = append(y.freeV, x.fwd[k])
			}
			created++
			at := r.place(y, created)
			if mod(st.A, 2) == 1 {
				r.cur = at
			}
		case "gc":
			r.gcs++
			runtime.GC()
		case "switch":
			r.cur = mod(st.A, len(r.boxes))
		case "range":
			stop := 0
			if st.A > 0 {
				stop = 1 + (st.A-1)%(x.size()+1)
			}
			if x.size() > r.rangeMax {
				r.rangeMax = x.size()
			}
			r.calls++
			if m := r.bigRange(r.cur, stop, "Range", nil); m != "" {
				return pbt.Fail("%s", m)
			}
		case "nested":
			if x.size() > r.nestedMax {
				r.nestedMax = x.size()
			}
			r.calls++
			if m := r.nested(r.cur, mod(st.A, 5)); m != "" {
				return pbt.Fail("%s", m)
			}
		default:
			return pbt.Outcome{Skipped: true}
		}
		if !r.lean {
			if m := r.fullAll("at the end of the step"); m != "" {
				return pbt.Fail("%s", m)
			}
			continue
		}
		// lean: the box the step worked on (or cloned / ranged over) over the whole universe, the others probed
		for bi, y := range r.boxes {
			var m string
			if y == worked {
				m = r.full(bi, "at the end of the step")
			} else {
				m = r.probe(bi, "at the end of the step (box not used in this step)")
			}
			if m != "" {
				return pbt.Fail("%s", m)
			}
		}
	}

	out := pbt.Outcome{Evals: r.evals, NonTrivial: r.maxPeak >= 65}
	class := func(n int) string {
		switch {
		case n <= 0:
			return "none"
		case n <= 8:
			return "1..8"
		case n <= 64:
			return "9..64"
		case n <= 256:
			return "65..256"
		case n <= 1024:
			return "257..1024"
		case n <= 4096:
			return "1025..4096"
		case n <= 16383:
			return "4097..16383"
		case n <= 32767:
			return "16384..32767"
		case n <= 65535:
			return "32768..65535"
		}
		return ">=65536"
	}
	out.Labels = append(out.Labels,
		"peak="+class(r.maxPeak),
		"clear@"+class(r.clearMax),
		"clone@"+class(r.cloneMax),
		"range@"+class(r.rangeMax),
		"nested-range@"+class(r.nestedMax),
		"3-pair-eviction@"+class(r.evictMax),
	)
	if r.evictBelowQuarter > 0 {
		out.Labels = append(out.Labels, "3-pair-eviction-at<=peak/4+1(peak>=64)")
	}
	if r.reuse > 0 {
		out.Labels = append(out.Labels, "freed-keys/values-reused")
	}
	if r.news > 0 {
		out.Labels = append(out.Labels, "independent-bimap")
	}
	if r.gcs > 0 {
		out.Labels = append(out.Labels, "gc-between-calls")
	}
	if c.Procs > 0 {
		out.Labels = append(out.Labels, fmt.Sprintf("GOMAXPROCS=%d", c.Procs))
	}
	names := [nSingle]string{"add-fresh", "add-same-pair", "add-collide-key-only", "add-collide-value-only", "add-collide-both", "remove-forward", "remove-reverse", "remove-forward-absent", "remove-reverse-absent"}
	for i, n := range r.kinds {
		if n > 0 {
			out.Labels = append(out.Labels, "big:"+names[i])
		}
	}
	return out
}

// bigSizes: peak sizes around every power of two, plus a few others.
func bigSizes(tier string) []int {
	s := []int{1, 2, 3, 5, 7, 8, 9, 12, 13, 14}
	top := 12
	if tier == "thorough" {
		top = 14
	}
	for p := 4; p <= top; p++ {
		s = append(s, 1<<p-1, 1<<p, 1<<p+1)
	}
	s = append(s, 27, 53, 100, 105, 209, 417, 833, 1000, 1665, 3329) // incl. 6.5*2^B +1 (runtime map growth points)
	if tier == "thorough" {
		s = append(s, 1500, 3000, 6000, 10000, 32769, 65537, 100000)
	}
	return s
}

func bigScripts(n int) [][]BStep {
	q := func(d int) int { return n / d }
	var saw []BStep
	saw = append(saw, BStep{K: "fill", N: n})
	for i, d := range []int{2, 4, 8} { // removals down to just above peak/d, then 3-pair evictions across the line
		saw = append(saw, BStep{K: "drain", N: q(d) + 1, A: i % 2}, BStep{K: "drain", N: q(d) - 1, A: 2}, BStep{K: "range"})
	}
	saw = append(saw, BStep{K: "drain", N: 0, A: 4}, BStep{K: "fill", N: n, A: 1})
	for i, d := range []int{2, 4, 8} { // the other way round
		saw = append(saw, BStep{K: "drain", N: q(d) + 1, A: 2}, BStep{K: "drain", N: q(d) - 1, A: (i + 1) % 2}, BStep{K: "churn", N: 12})
	}
	saw = append(saw, BStep{K: "clear"}, BStep{K: "fill", N: q(4) + 1, A: 2})
	return [][]BStep{
		{ // Clear / re-use after Clear
			{K: "fill", N: n}, {K: "range"}, {K: "nested", A: 2}, {K: "clear"}, {K: "range"}, {K: "clone", A: 1}, {K: "churn", N: 6}, {K: "switch", A: 0}, {K: "drain", N: 0, A: 1},
			{K: "fill", N: q(2) + 1}, {K: "nested", A: 0}, {K: "clone", A: 1}, {K: "clear"}, {K: "clear"}, {K: "switch", A: 0}, {K: "fill", N: n + 1, A: 2}, {K: "clear"}, {K: "fill", N: 3},
		},
		{ // every size crossed downwards by a 3-pair eviction; growth interleaved with evictions
			{K: "fill", N: n}, {K: "drain", N: 1, A: 2}, {K: "fill", N: n, A: 3}, {K: "range", A: n}, {K: "drain", N: 0, A: 2},
		},
		{ // plain removals, each direction, re-fill with re-used keys and values
			{K: "fill", N: n}, {K: "drain", N: 0, A: 0}, {K: "fill", N: n}, {K: "range", A: n + 1}, {K: "drain", N: 0, A: 1}, {K: "fill", N: q(4) + 1}, {K: "nested", A: 1},
		},
		{ // Clone of a big map, both sides mutated
			{K: "fill", N: n, A: 1}, {K: "clone", A: 1}, {K: "drain", N: q(4), A: 3}, {K: "range"}, {K: "nested", A: 4}, {K: "switch", A: 0}, {K: "nested", A: 1}, {K: "clone", A: 0}, {K: "nested", A: 4}, {K: "drain", N: 0, A: 4},
			{K: "switch", A: 1}, {K: "clear"}, {K: "switch", A: 2}, {K: "nested", A: 3}, {K: "fill", N: n + 2, A: 2}, {K: "drain", N: q(8), A: 2},
		},
		{ // mixes and early-stopped Ranges
			{K: "fill", N: n, A: 2}, {K: "range", A: 1}, {K: "range", A: n}, {K: "range", A: n - 1}, {K: "drain", N: q(2), A: 3}, {K: "churn", N: 64}, {K: "fill", N: n + 1, A: 3},
			{K: "nested", A: 3}, {K: "nested", A: 2}, {K: "drain", N: 0, A: 4},
		},
		saw,
		{ // two (then three) INDEPENDENT Bimaps used alternately, garbage collections in between, dropped boxes
			{K: "fill", N: n}, {K: "new", A: 1}, {K: "fill", N: q(2) + 1, A: 2}, {K: "switch", A: 0}, {K: "drain", N: q(2), A: 3}, {K: "gc"}, {K: "switch", A: 1}, {K: "churn", N: 16},
			{K: "clear"}, {K: "switch", A: 0}, {K: "churn", N: 16}, {K: "new", A: 1}, {K: "fill", N: 9, A: 1}, {K: "clone", A: 0}, {K: "new", A: 0}, {K: "gc"}, {K: "switch", A: 0}, {K: "range"}, {K: "nested", A: 4},
			{K: "clear"}, {K: "switch", A: 1}, {K: "fill", N: q(4) + 2, A: 3}, {K: "switch", A: 2}, {K: "fill", N: 5}, {K: "gc"}, {K: "churn", N: 8},
		},
	}
}

var specBig = pbt.Register(&pbt.Spec[BigCase]{
	Property: "C11", Name: "C11.big",
	Rule: "big Bimaps: scripts of bulk steps (fill to N by single Adds, plain or interleaved with same-pair/key-colliding/value-colliding/doubly-colliding Adds; drain to N by RemoveForward, RemoveReverse, " +
		"doubly-colliding Adds (3-pair evictions crossing every size), rotating or random mixes; churn; Clear; Clone with both sides mutated afterwards; Range all / early stop at 1, Len-1, Len, Len+1; " +
		"Range with read-only nested calls: inner full Ranges, inner early-stopped Ranges, Len/lookups/Clone inside the callback, Ranges over the other boxes (clones/originals)); keys/values picked by a case-seeded LCG from live pairs, freed (re-used) and never-used ones, the i-th new key/value being i/3, MaxInt-i/3 or MinInt+i/3 (both ends of the int range); " +
		"new independent zero-value Bimaps as further boxes (used alternately with the others; replaced boxes become garbage) and runtime.GC() steps; every Clone is verified over the whole universe immediately after it returned; " +
		"enumerated: 7 scripts (Clear+re-use; eviction descent; removal descents; Clone; mixes; sawtooth around peak/2, peak/4, peak/8 with removals up to the line and evictions across it, and vice versa; independent Bimaps used alternately around GCs) x peak sizes " +
		"{1,2,3,5,7,8,9,12,13,14, 2^p-1, 2^p, 2^p+1 for p=4..12 (thorough ..14), 27,53,100,105,209,417,833,1000,1665,3329 (thorough + 1500,3000,6000,10000,32769,65537,100000)}; " +
		"rapid: peak size drawn from the same list (<= 4097), GOMAXPROCS left alone (60%) or 1,2,3,5,7 for the case, first step fill, then 2..24 random steps (incl. new, gc) with targets 0,1,N/8,N/4-1,N/4,N/4+1,N/2,N-1,N,N+1; " +
		"oracle: model; touched keys/values + Len compared before and after every single call, whole universe of every box at the end of every step and at power-of-two and peak/2,/4,/8 sizes; " +
		"non-trivial = some box reached >= 65 pairs",
	Enum: func(shard, shards int, tier string, yield func(BigCase) bool) {
		for ni, n := range bigSizes(tier) {
			for si, steps := range bigScripts(n) {
				if shards > 1 && (ni+si)%shards != shard { // every shard gets every script and sizes of every magnitude
					continue
				}
				if !yield(BigCase{Seed: n*31 + si, Steps: steps}) {
					return
				}
			}
		}
	},
	Gen: func(t *rapid.T) BigCase {
		var sizes []int
		for _, n := range bigSizes("quick") {
			if n <= 4097 {
				sizes = append(sizes, n)
			}
		}
		n := rapid.SampledFrom(sizes).Draw(t, "n")
		c := BigCase{Seed: rapid.IntRange(0, 1<<20).Draw(t, "seed")}
		c.Procs = rapid.SampledFrom([]int{0, 0, 0, 0, 0, 0, 1, 2, 3, 5, 7}).Draw(t, "procs")
		c.Steps = append(c.Steps, BStep{K: "fill", N: n, A: rapid.IntRange(0, 3).Draw(t, "fillmode")})
		targets := []int{0, 1, n / 8, n/4 - 1, n / 4, n/4 + 1, n / 2, n - 1, n, n + 1}
		step := rapid.Custom(func(t *rapid.T) BStep {
			k := rapid.SampledFrom([]string{"fill", "fill", "fill", "drain", "drain", "drain", "drain", "churn", "churn", "clear", "clear", "clone", "clone", "switch", "switch", "range", "range", "nested", "nested", "nested", "new", "new", "gc"}).Draw(t, "k")
			st := BStep{K: k}
			switch k {
			case "fill":
				st.N, st.A = rapid.SampledFrom(targets).Draw(t, "n"), rapid.IntRange(0, 3).Draw(t, "a")
			case "drain":
				st.N, st.A = rapid.SampledFrom(targets).Draw(t, "n"), rapid.IntRange(0, 4).Draw(t, "a")
			case "churn":
				st.N = rapid.IntRange(1, 40).Draw(t, "n")
			case "clone", "new":
				st.A = rapid.IntRange(0, 1).Draw(t, "a")
			case "switch":
				st.A = rapid.IntRange(0, 2).Draw(t, "a")
			case "range":
				st.A = rapid.SampledFrom([]int{0, 1, 2, n - 1, n, n + 1}).Draw(t, "a")
				if st.A < 0 {
					st.A = 0
				}
			case "nested":
				st.A = rapid.IntRange(0, 4).Draw(t, "a")
			}
			return st
		})
		c.Steps = append(c.Steps, pbt.OpsOf(t, step, []int{2, 5, 9}, "steps")...)
		return c
	},
	Run: RunBig, Quick: 200, Thorough: 3000,
})

func TestC11Big(t *testing.T) { pbt.Check(t, specBig) }
