// Package c11 decides C11: maps.Bimap keeps its two directions mutually inverse.
package c11

import (
	"fmt"
	"testing"

	"gopkg.in/typ.v4/maps"
	"pgregory.net/rapid"
	"verifharness/internal/pbt"
)

// Distinct key and value types so that the two directions cannot be mixed up
// by the harness itself. Values live in 100.. to keep messages readable.
type K int
type V int

const (
	uniK     = 4 // keys 0..3 are used by Add; key 4 is never added (probe only)
	uniV     = 4
	maxBoxes = 4
)

func key(a int) K { return K(mod(a, uniK)) }
func val(b int) V { return V(100 + mod(b, uniV)) }

func mod(x, m int) int { return ((x % m) + m) % m }

// Op kinds.
const (
	opAdd       = 0 // Add(key(A), val(B)) on box H
	opRemFwd    = 1 // RemoveForward(key(A))
	opRemRev    = 2 // RemoveReverse(val(B))
	opClear     = 3 // Clear
	opClone     = 4 // Clone box H; the clone becomes a new box (or replaces box B mod live when 4 boxes are alive)
	opRange     = 5 // Range over everything
	opRangeStop = 6 // Range, f returns false on call number 1 + A mod 3
	opProbe     = 7 // Get*/Contains* for key A mod 6 and value 100 + B mod 6 (4, 5 are never added)
	opLen       = 8 // Len
	nOps        = 9
)

type Op struct {
	K int `json:"k"`
	H int `json:"h"` // box (handle) index, reduced modulo the number of live boxes
	A int `json:"a"`
	B int `json:"b"`
}

// Case: Start 0 = zero-value Bimap; 1 = Clone of a zero-value Bimap; 2 = Clone
// of a Bimap holding {0:100, 1:101} (the original stays alive as box 1).
type Case struct {
	Start int  `json:"start"`
	Ops   []Op `json:"ops"`
}

const rule = "boxes = live Bimap[K,V] values (start: zero value | Clone of zero value | Clone of a populated map with the original kept alive; Clone ops add boxes, max 4), " +
	"each with its own model (list of pairs; Add(k,v) deletes every pair with key k or value v, then inserts); keys 0..3, values 100..103; " +
	"after EVERY call, for EVERY live box and every key 0..4 and value 100..104: GetForward/GetReverse/ContainsForward/ContainsReverse agree with the model, " +
	"GetForward(k)=(v,true) <=> GetReverse(v)=(k,true) on the library's own answers, Len = number of pairs (so a change leaking through a Clone shows up in the other box); " +
	"Range visits exactly the model's pairs once each; Range with early stop calls f exactly min(stop,Len) times on distinct pairs of the map; " +
	"non-trivial = history has an Add colliding on the key only, one colliding on the value only, and one colliding on both with different partners (three-pair eviction)"

type pair struct {
	k K
	v V
}

// box is one live Bimap plus its model.
type box struct {
	b     *maps.Bimap[K, V]
	pairs []pair // model, insertion order (order is irrelevant to every verdict)
}

func (x *box) fwd(k K) (V, bool) {
	for _, p := range x.pairs {
		if p.k == k {
			return p.v, true
		}
	}
	return 0, false
}

func (x *box) rev(v V) (K, bool) {
	for _, p := range x.pairs {
		if p.v == v {
			return p.k, true
		}
	}
	return 0, false
}

func (x *box) modelAdd(k K, v V) {
	kept := x.pairs[:0:0]
	for _, p := range x.pairs {
		if p.k != k && p.v != v {
			kept = append(kept, p)
		}
	}
	x.pairs = append(kept, pair{k, v})
}

func (x *box) modelRemove(pred func(pair) bool) {
	kept := x.pairs[:0:0]
	for _, p := range x.pairs {
		if !pred(p) {
			kept = append(kept, p)
		}
	}
	x.pairs = kept
}

func (x *box) String() string {
	s := "{"
	for i, p := range x.pairs {
		if i > 0 {
			s += " "
		}
		s += fmt.Sprintf("%d:%d", p.k, p.v)
	}
	return s + "}"
}

// verify compares one box with its model over the whole universe (+1 probe
// key/value that is never added).
func verify(x *box, bi int, evals *int) string {
	b := x.b
	if got := b.Len(); got != len(x.pairs) {
		return fmt.Sprintf("box %d: Len() = %d, want %d (model %v)", bi, got, len(x.pairs), x)
	}
	for i := 0; i <= uniK; i++ {
		k := K(i)
		wv, wok := x.fwd(k)
		gv, gok := b.GetForward(k)
		if gok != wok || (wok && gv != wv) {
			return fmt.Sprintf("box %d: GetForward(%d) = (%d,%v), want (%d,%v) (model %v)", bi, k, gv, gok, wv, wok, x)
		}
		if c := b.ContainsForward(k); c != wok {
			return fmt.Sprintf("box %d: ContainsForward(%d) = %v, want %v (model %v)", bi, k, c, wok, x)
		}
		if gok { // the library's own two directions must be inverse
			bk, bok := b.GetReverse(gv)
			if !bok || bk != k {
				return fmt.Sprintf("box %d: GetForward(%d) = (%d,true) but GetReverse(%d) = (%d,%v): directions are not inverse (model %v)", bi, k, gv, gv, bk, bok, x)
			}
		}
	}
	for i := 0; i <= uniV; i++ {
		v := V(100 + i)
		wk, wok := x.rev(v)
		gk, gok := b.GetReverse(v)
		if gok != wok || (wok && gk != wk) {
			return fmt.Sprintf("box %d: GetReverse(%d) = (%d,%v), want (%d,%v) (model %v)", bi, v, gk, gok, wk, wok, x)
		}
		if c := b.ContainsReverse(v); c != wok {
			return fmt.Sprintf("box %d: ContainsReverse(%d) = %v, want %v (model %v)", bi, v, c, wok, x)
		}
		if gok {
			fv, fok := b.GetForward(gk)
			if !fok || fv != v {
				return fmt.Sprintf("box %d: GetReverse(%d) = (%d,true) but GetForward(%d) = (%d,%v): directions are not inverse (model %v)", bi, v, gk, gk, fv, fok, x)
			}
		}
	}
	*evals += 4*(uniK+1) + 1
	return ""
}

// rangeCheck runs Range on x.b; stop <= 0 means never stop.
func rangeCheck(x *box, bi, stop int) string {
	var seen []pair
	calls := 0
	stopped := false
	afterStop := 0
	x.b.Range(func(k K, v V) bool {
		if stopped {
			afterStop++
			return false
		}
		calls++
		seen = append(seen, pair{k, v})
		if stop > 0 && calls == stop {
			stopped = true
			return false
		}
		return true
	})
	name := "Range"
	if stop > 0 {
		name = fmt.Sprintf("Range(stop at call %d)", stop)
	}
	if afterStop > 0 {
		return fmt.Sprintf("box %d: %s: f was called %d more time(s) after it returned false (model %v)", bi, name, afterStop, x)
	}
	for i, p := range seen {
		if wv, ok := x.fwd(p.k); !ok || wv != p.v {
			return fmt.Sprintf("box %d: %s visited (%d,%d) which is not a pair of the map (model %v, visited %v)", bi, name, p.k, p.v, x, seen)
		}
		for _, q := range seen[:i] {
			if q == p {
				return fmt.Sprintf("box %d: %s visited (%d,%d) twice (model %v, visited %v)", bi, name, p.k, p.v, x, seen)
			}
		}
	}
	want := len(x.pairs)
	if stop > 0 && stop < want {
		want = stop
	}
	if len(seen) != want {
		return fmt.Sprintf("box %d: %s visited %d pair(s), want %d (model %v, visited %v)", bi, name, len(seen), want, x, seen)
	}
	return ""
}

func Run(c Case) pbt.Outcome {
	var boxes []*box
	switch mod(c.Start, 3) {
	case 0:
		var b maps.Bimap[K, V]
		boxes = append(boxes, &box{b: &b})
	case 1:
		var z maps.Bimap[K, V]
		cl := z.Clone()
		boxes = append(boxes, &box{b: &cl})
	case 2:
		var o maps.Bimap[K, V]
		o.Add(0, 100)
		o.Add(1, 101)
		cl := o.Clone()
		boxes = append(boxes, &box{b: &cl, pairs: []pair{{0, 100}, {1, 101}}}, &box{b: &o, pairs: []pair{{0, 100}, {1, 101}}})
	}
	evals := 0
	verifyAll := func(i int, what string) string {
		for bi, x := range boxes {
			if m := verify(x, bi, &evals); m != "" {
				return fmt.Sprintf("after op %d (%s): %s", i, what, m)
			}
		}
		return ""
	}
	if m := verifyAll(-1, "construction"); m != "" {
		return pbt.Fail("%s", m)
	}
	var (
		addFresh, addSame, collKey, collVal, collBoth, collBothSamePartner int
		clones, mutAfterClone, ranges, rangeStops, rangeStopsEarly         int
		remHit, remMiss, clears, clearsNonEmpty                            int
		maxPairs                                                           int
	)
	for i, op := range c.Ops {
		h := mod(op.H, len(boxes))
		x := boxes[h]
		var what string
		switch mod(op.K, nOps) {
		case opAdd:
			k, v := key(op.A), val(op.B)
			what = fmt.Sprintf("box %d: Add(%d,%d)", h, k, v)
			oldV, kHit := x.fwd(k)
			oldK, vHit := x.rev(v)
			switch {
			case kHit && vHit && oldV == v: // the very same pair (then oldK == k too)
				addSame++
			case kHit && vHit:
				collBoth++
			case kHit:
				collKey++
			case vHit:
				collVal++
			default:
				addFresh++
			}
			_ = oldK
			x.b.Add(k, v)
			x.modelAdd(k, v)
			if len(boxes) > 1 {
				mutAfterClone++
			}
		case opRemFwd:
			k := key(op.A)
			what = fmt.Sprintf("box %d: RemoveForward(%d)", h, k)
			if _, ok := x.fwd(k); ok {
				remHit++
			} else {
				remMiss++
			}
			x.b.RemoveForward(k)
			x.modelRemove(func(p pair) bool { return p.k == k })
			if len(boxes) > 1 {
				mutAfterClone++
			}
		case opRemRev:
			v := val(op.B)
			what = fmt.Sprintf("box %d: RemoveReverse(%d)", h, v)
			if _, ok := x.rev(v); ok {
				remHit++
			} else {
				remMiss++
			}
			x.b.RemoveReverse(v)
			x.modelRemove(func(p pair) bool { return p.v == v })
			if len(boxes) > 1 {
				mutAfterClone++
			}
		case opClear:
			what = fmt.Sprintf("box %d: Clear()", h)
			clears++
			if len(x.pairs) > 0 {
				clearsNonEmpty++
			}
			x.b.Clear()
			x.pairs = nil
			if len(boxes) > 1 {
				mutAfterClone++
			}
		case opClone:
			what = fmt.Sprintf("box %d: Clone()", h)
			clones++
			cl := x.b.Clone()
			nb := &box{b: &cl, pairs: append([]pair(nil), x.pairs...)}
			if len(boxes) < maxBoxes {
				boxes = append(boxes, nb)
			} else {
				slot := mod(op.B, len(boxes))
				if slot == h { // never drop the source: keep original and clone both alive
					slot = (slot + 1) % len(boxes)
				}
				boxes[slot] = nb
			}
		case opRange:
			what = fmt.Sprintf("box %d: Range(all)", h)
			ranges++
			if m := rangeCheck(x, h, 0); m != "" {
				return pbt.Fail("op %d: %s", i, m)
			}
		case opRangeStop:
			stop := 1 + mod(op.A, 3)
			what = fmt.Sprintf("box %d: Range(stop at %d)", h, stop)
			rangeStops++
			if stop < len(x.pairs) {
				rangeStopsEarly++
			}
			if m := rangeCheck(x, h, stop); m != "" {
				return pbt.Fail("op %d: %s", i, m)
			}
		case opProbe:
			k, v := K(mod(op.A, 6)), V(100+mod(op.B, 6))
			what = fmt.Sprintf("box %d: probe key %d value %d", h, k, v)
			wv, wok := x.fwd(k)
			if gv, gok := x.b.GetForward(k); gok != wok || (wok && gv != wv) {
				return pbt.Fail("op %d: box %d: GetForward(%d) = (%d,%v), want (%d,%v) (model %v)", i, h, k, gv, gok, wv, wok, x)
			}
			if got := x.b.ContainsForward(k); got != wok {
				return pbt.Fail("op %d: box %d: ContainsForward(%d) = %v, want %v (model %v)", i, h, k, got, wok, x)
			}
			wk, wok2 := x.rev(v)
			if gk, gok := x.b.GetReverse(v); gok != wok2 || (wok2 && gk != wk) {
				return pbt.Fail("op %d: box %d: GetReverse(%d) = (%d,%v), want (%d,%v) (model %v)", i, h, v, gk, gok, wk, wok2, x)
			}
			if got := x.b.ContainsReverse(v); got != wok2 {
				return pbt.Fail("op %d: box %d: ContainsReverse(%d) = %v, want %v (model %v)", i, h, v, got, wok2, x)
			}
		case opLen:
			what = fmt.Sprintf("box %d: Len()", h)
			if got := x.b.Len(); got != len(x.pairs) {
				return pbt.Fail("op %d: box %d: Len() = %d, want %d (model %v)", i, h, got, len(x.pairs), x)
			}
		}
		evals++
		if len(x.pairs) > maxPairs {
			maxPairs = len(x.pairs)
		}
		if m := verifyAll(i, what); m != "" {
			return pbt.Fail("%s", m)
		}
	}

	out := pbt.Outcome{Evals: evals}
	out.NonTrivial = collKey > 0 && collVal > 0 && collBoth > 0
	lab := func(cond bool, l string) {
		if cond {
			out.Labels = append(out.Labels, l)
		}
	}
	out.Labels = append(out.Labels, fmt.Sprintf("start=%d", mod(c.Start, 3)))
	lab(addFresh > 0, "add-fresh")
	lab(addSame > 0, "add-same-pair")
	lab(collKey > 0, "add-collide-key-only")
	lab(collVal > 0, "add-collide-value-only")
	lab(collBoth > 0, "add-collide-both(3-pair-eviction)")
	lab(collBoth >= 2, "3-pair-eviction>=2")
	lab(remHit > 0, "remove-present")
	lab(remMiss > 0, "remove-absent")
	lab(clearsNonEmpty > 0, "clear-nonempty")
	lab(clears > clearsNonEmpty, "clear-empty")
	lab(clones > 0, "clone")
	lab(clones > 0 && mutAfterClone > 0, "clone+mutation-afterwards")
	lab(ranges > 0, "range-all")
	lab(rangeStopsEarly > 0, "range-stopped-early")
	lab(rangeStops > rangeStopsEarly, "range-stop-not-reached")
	lab(maxPairs >= 4, "full(4 pairs)")
	lab(maxPairs == 3, "max-3-pairs")
	lab(maxPairs <= 2, "max<=2-pairs")
	_ = collBothSamePartner
	switch {
	case len(c.Ops) >= 25:
		out.Labels = append(out.Labels, "ops>=25")
	case len(c.Ops) >= 8:
		out.Labels = append(out.Labels, "ops=8..24")
	default:
		out.Labels = append(out.Labels, "ops<8")
	}
	return out
}

var kindTable = []int{
	opAdd, opAdd, opAdd, opAdd, opAdd, opAdd, opAdd, opAdd, opAdd, opAdd,
	opRemFwd, opRemFwd, opRemRev, opRemRev, opClear,
	opClone, opClone, opRange, opRangeStop, opProbe, opLen,
}

var opGen = rapid.Custom(func(t *rapid.T) Op {
	op := Op{
		K: rapid.SampledFrom(kindTable).Draw(t, "k"),
		H: rapid.IntRange(0, 3).Draw(t, "h"),
		A: rapid.IntRange(0, 5).Draw(t, "a"),
		B: rapid.IntRange(0, 5).Draw(t, "b"),
	}
	// a quarter of the Adds go on the diagonal k -> 100+k so that maps fill up to 4 pairs
	if op.K == opAdd && rapid.IntRange(0, 3).Draw(t, "diag") == 0 {
		op.B = op.A
	}
	return op
})

var specRand = pbt.Register(&pbt.Spec[Case]{
	Property: "C11", Name: "C11.rand", Rule: "rapid: start 0..2, 0..50 ops (Add 48%, RemoveForward/RemoveReverse 19%, Clear 5%, Clone 10%, Range/Range-with-stop 10%, probes/Len 10%), box/key/value raw ints reduced at run time; " + rule,
	Gen: func(t *rapid.T) Case {
		c := Case{Start: rapid.IntRange(0, 2).Draw(t, "start")}
		// rapid's IntRange and SliceOfN lean heavily towards short lists; a drawn minimum length (max of two
		// draws) flattens the length distribution while SliceOfN keeps element-wise shrinking.
		lo := rapid.IntRange(0, 45).Draw(t, "minops")
		if l2 := rapid.IntRange(0, 45).Draw(t, "minops2"); l2 > lo {
			lo = l2
		}
		c.Ops = rapid.SliceOfN(opGen, lo, 50).Draw(t, "ops")
		if c.Ops == nil {
			c.Ops = []Op{}
		}
		return c
	},
	Run: Run, Quick: 30000, Thorough: 200000,
})

// Exhaustive small scope: one box (zero value), universe 3 keys x 3 values,
// alphabet = 9 Adds + 3 RemoveForward + 3 RemoveReverse + Clear = 16 calls,
// every sequence up to a length bound. Every call is followed by the full
// universe check, so Get*/Contains*/Len need no letters of their own.
const enumAlphabet = 16

func enumOp(code int) Op {
	switch {
	case code < 9:
		return Op{K: opAdd, A: code / 3, B: code % 3}
	case code < 12:
		return Op{K: opRemFwd, A: code - 9}
	case code < 15:
		return Op{K: opRemRev, B: code - 12}
	}
	return Op{K: opClear}
}

var specEnum = pbt.Register(&pbt.Spec[Case]{
	Property: "C11", Name: "C11.enum", Rule: "exhaustive: zero-value Bimap, every sequence of length 0..5 (thorough: 0..6) over the 16 calls {Add(k,v) k in 0..2, v in 100..102; RemoveForward(k); RemoveReverse(v); Clear}; " + rule,
	Enum: func(shard, shards int, tier string, yield func(Case) bool) {
		maxLen := 5
		if tier == "thorough" {
			maxLen = 6
		}
		idx := 0
		for l := 0; l <= maxLen; l++ {
			total := 1
			for i := 0; i < l; i++ {
				total *= enumAlphabet
			}
			for code := 0; code < total; code++ {
				idx++
				if shards > 1 && idx%shards != shard {
					continue
				}
				ops := make([]Op, l)
				x := code
				for i := 0; i < l; i++ {
					ops[i] = enumOp(x % enumAlphabet)
					x /= enumAlphabet
				}
				if !yield(Case{Start: 0, Ops: ops}) {
					return
				}
			}
		}
	},
	Run: Run, Exhaustive: true,
})

func TestC11Enum(t *testing.T) { pbt.Check(t, specEnum) }
func TestC11Rand(t *testing.T) { pbt.Check(t, specRand) }
func TestReplay(t *testing.T)  { pbt.Replay(t) }
