// Package c11 decides C11: maps.Bimap keeps its two directions mutually inverse.
//
// Units: C11.enum / C11.rand (small universes, every collision pattern, model after every call),
// C11.types (the same machine over other key/value instantiations: zero values, equal-but-distinct
// floats, interfaces, zero-size types, types with methods; types_test.go), C11.big (hundreds to
// thousands of pairs: size thresholds, shrink/grow sweeps, Clear/Clone/Range on big maps; big_test.go),
// C11.par (2^13..2^16 (thorough 2^18) +-1 pairs under GOMAXPROCS 1,2,3,5,6,7 and the default; par_test.go),
// C11.repeat (one cheap call cycle repeated 2^16 .. 2^24 times: wrapping counters; repeat_test.go) and the
// thorough-only C11.wrap32 (2^32 repetitions).
package c11

import (
	"fmt"
	"runtime"
	"testing"

	"gopkg.in/typ.v4/maps"
	"pgregory.net/rapid"
	"verifharness/internal/pbt"
)

// Distinct key and value types so that the two directions cannot be mixed up
// by the harness itself. Values live in 100.. to keep messages readable.
type K int
type V int

const (
	uniAdd   = 4 // universe elements 0..3 are used by Add
	uniAll   = 6 // elements 4 and 5 are probe-only (never added, unless == to an addable one in a degenerate universe)
	maxBoxes = 4
)

// universe is the small key/value universe one history runs over. Elements are
// compared with Go's == everywhere (model and oracle), which is the Bimap's
// key equality (K, V comparable); names are only for messages.
type universe[KT, VT comparable] struct {
	name   string
	keys   []KT // len uniAll
	vals   []VT // len uniAll
	kn, vn []string
}

func (u *universe[KT, VT]) key(a int) KT { return u.keys[mod(a, uniAdd)] }
func (u *universe[KT, VT]) val(b int) VT { return u.vals[mod(b, uniAdd)] }
func (u *universe[KT, VT]) kname(k KT) string {
	for i, x := range u.keys {
		if x == k {
			return u.kn[i]
		}
	}
	return fmt.Sprintf("<foreign key %v>", k)
}
func (u *universe[KT, VT]) vname(v VT) string {
	for i, x := range u.vals {
		if x == v {
			return u.vn[i]
		}
	}
	return fmt.Sprintf("<foreign value %v>", v)
}

var uniDefault = &universe[K, V]{
	name: "K(int)->V(int)",
	keys: []K{0, 1, 2, 3, 4, 5}, vals: []V{100, 101, 102, 103, 104, 105},
	kn: []string{"0", "1", "2", "3", "4", "5"}, vn: []string{"100", "101", "102", "103", "104", "105"},
}

func mod(x, m int) int { return ((x % m) + m) % m }

// res formats a lookup result for messages; the first component is meaningless when ok is false.
func res(name string, ok bool) string {
	if !ok {
		return "(_,false)"
	}
	return "(" + name + ",true)"
}

// Op kinds.
const (
	opAdd       = 0 // Add(key(A), val(B)) on box H
	opRemFwd    = 1 // RemoveForward(key(A))
	opRemRev    = 2 // RemoveReverse(val(B))
	opClear     = 3 // Clear
	opClone     = 4 // Clone box H; the clone becomes a new box (or replaces box B mod live when 4 boxes are alive)
	opRange     = 5 // Range over everything
	opRangeStop = 6 // Range, f returns false on call number 1 + A mod 3
	opProbe     = 7 // Get*/Contains* for key A mod 6 and value B mod 6 (4, 5 are never added)
	opLen       = 8 // Len
	opNested    = 9 // Range whose callback only READS this Bimap or its clones (variant B mod 5, see nestedCheck)
	opNew       = 10 // a new, INDEPENDENT zero-value Bimap becomes a box (placed like a clone); A odd: it starts with Add(key(A), val(B))
	opGC        = 11 // runtime.GC() between two calls (dropped boxes become collectable; pools and weak references are flushed)
	nOps        = 12
)

type Op struct {
	K int `json:"k"`
	H int `json:"h"` // box (handle) index, reduced modulo the number of live boxes
	A int `json:"a"`
	B int `json:"b"`
}

// Case: Start 0 = zero-value Bimap; 1 = Clone of a zero-value Bimap; 2 = Clone
// of a Bimap holding {key0:val0, key1:val1} (the original stays alive as box 1).
type Case struct {
	Start int  `json:"start"`
	Ops   []Op `json:"ops"`
}

const rule = "boxes = live Bimap values (start: zero value | Clone of zero value | Clone of a populated map with the original kept alive; Clone ops add boxes, New ops add INDEPENDENT zero-value Bimaps that are used alternately with the others, max 4 boxes, replaced boxes become garbage; rare runtime.GC() between calls), " +
	"each with its own model (list of pairs; Add(k,v) deletes every pair with key k or value v, then inserts); 4 addable keys and values + 2 probe-only ones; " +
	"after EVERY call, for EVERY live box and every key and value of the universe: GetForward/GetReverse/ContainsForward/ContainsReverse agree with the model, " +
	"GetForward(k)=(v,true) <=> GetReverse(v)=(k,true) on the library's own answers, Len = number of pairs (so a change leaking through a Clone shows up in the other box); " +
	"Range visits exactly the model's pairs once each; Range with early stop calls f exactly min(stop,Len) times on distinct pairs of the map; " +
	"nested Range: the callback of a Range runs read-only calls on the same Bimap (an inner full Range at one or at every outer call, a third level, an inner early-stopped Range, Clone+lookups+Len, or Ranges over the other live boxes) " +
	"and every level must still visit every pair exactly once (no mutator is ever called inside a callback); " +
	"non-trivial = history has an Add colliding on the key only, one colliding on the value only, and one colliding on both with different partners (three-pair eviction)"

type pair[KT, VT comparable] struct {
	k KT
	v VT
}

// box is one live Bimap plus its model.
type box[KT, VT comparable] struct {
	b     *maps.Bimap[KT, VT]
	u     *universe[KT, VT]
	pairs []pair[KT, VT] // model, insertion order (order is irrelevant to every verdict)
}

func (x *box[KT, VT]) fwd(k KT) (v VT, ok bool) {
	for _, p := range x.pairs {
		if p.k == k {
			return p.v, true
		}
	}
	return v, false
}

func (x *box[KT, VT]) rev(v VT) (k KT, ok bool) {
	for _, p := range x.pairs {
		if p.v == v {
			return p.k, true
		}
	}
	return k, false
}

func (x *box[KT, VT]) modelAdd(k KT, v VT) {
	kept := x.pairs[:0:0]
	for _, p := range x.pairs {
		if p.k != k && p.v != v {
			kept = append(kept, p)
		}
	}
	x.pairs = append(kept, pair[KT, VT]{k, v})
}

func (x *box[KT, VT]) modelRemove(pred func(pair[KT, VT]) bool) {
	kept := x.pairs[:0:0]
	for _, p := range x.pairs {
		if !pred(p) {
			kept = append(kept, p)
		}
	}
	x.pairs = kept
}

func (x *box[KT, VT]) showPairs(ps []pair[KT, VT]) string {
	s := "{"
	for i, p := range ps {
		if i > 0 {
			s += " "
		}
		s += x.u.kname(p.k) + ":" + x.u.vname(p.v)
	}
	return s + "}"
}

func (x *box[KT, VT]) String() string { return x.showPairs(x.pairs) }

// verify compares one box with its model over the whole universe (including
// the probe-only elements).
func verify[KT, VT comparable](x *box[KT, VT], bi int, evals *int) string {
	b, u := x.b, x.u
	if got := b.Len(); got != len(x.pairs) {
		return fmt.Sprintf("box %d: Len() = %d, want %d (model %v)", bi, got, len(x.pairs), x)
	}
	for _, k := range u.keys {
		wv, wok := x.fwd(k)
		gv, gok := b.GetForward(k)
		if gok != wok || (wok && gv != wv) {
			return fmt.Sprintf("box %d: GetForward(%s) = %s, want %s (model %v)", bi, u.kname(k), res(u.vname(gv), gok), res(u.vname(wv), wok), x)
		}
		if c := b.ContainsForward(k); c != wok {
			return fmt.Sprintf("box %d: ContainsForward(%s) = %v, want %v (model %v)", bi, u.kname(k), c, wok, x)
		}
		if gok { // the library's own two directions must be inverse
			bk, bok := b.GetReverse(gv)
			if !bok || bk != k {
				return fmt.Sprintf("box %d: GetForward(%s) = (%s,true) but GetReverse(%s) = (%s,%v): directions are not inverse (model %v)", bi, u.kname(k), u.vname(gv), u.vname(gv), u.kname(bk), bok, x)
			}
		}
	}
	for _, v := range u.vals {
		wk, wok := x.rev(v)
		gk, gok := b.GetReverse(v)
		if gok != wok || (wok && gk != wk) {
			return fmt.Sprintf("box %d: GetReverse(%s) = %s, want %s (model %v)", bi, u.vname(v), res(u.kname(gk), gok), res(u.kname(wk), wok), x)
		}
		if c := b.ContainsReverse(v); c != wok {
			return fmt.Sprintf("box %d: ContainsReverse(%s) = %v, want %v (model %v)", bi, u.vname(v), c, wok, x)
		}
		if gok {
			fv, fok := b.GetForward(gk)
			if !fok || fv != v {
				return fmt.Sprintf("box %d: GetReverse(%s) = (%s,true) but GetForward(%s) = (%s,%v): directions are not inverse (model %v)", bi, u.vname(v), u.kname(gk), u.kname(gk), u.vname(fv), fok, x)
			}
		}
	}
	*evals += 4*uniAll + 1
	return ""
}

// rangeCheck runs Range on x.b; stop <= 0 means never stop. inner (may be nil)
// is run inside the callback after the visit has been recorded, with the
// 1-based call number; a non-empty result aborts the Range and is returned.
func rangeCheck[KT, VT comparable](x *box[KT, VT], bi, stop int, name string, inner func(call int) string) string {
	var seen []pair[KT, VT]
	calls := 0
	stopped := false
	afterStop := 0
	innerMsg := ""
	x.b.Range(func(k KT, v VT) bool {
		if stopped {
			afterStop++
			return false
		}
		calls++
		seen = append(seen, pair[KT, VT]{k, v})
		if inner != nil {
			if innerMsg = inner(calls); innerMsg != "" {
				stopped = true
				return false
			}
		}
		if stop > 0 && calls == stop {
			stopped = true
			return false
		}
		return true
	})
	if innerMsg != "" {
		return innerMsg
	}
	if stop > 0 {
		name = fmt.Sprintf("%s(stop at call %d)", name, stop)
	}
	if afterStop > 0 {
		return fmt.Sprintf("box %d: %s: f was called %d more time(s) after it returned false (model %v)", bi, name, afterStop, x)
	}
	for i, p := range seen {
		if wv, ok := x.fwd(p.k); !ok || wv != p.v {
			return fmt.Sprintf("box %d: %s visited (%s,%s) which is not a pair of the map (model %v, visited %v)", bi, name, x.u.kname(p.k), x.u.vname(p.v), x, x.showPairs(seen))
		}
		for _, q := range seen[:i] {
			if q == p {
				return fmt.Sprintf("box %d: %s visited (%s,%s) twice (model %v, visited %v)", bi, name, x.u.kname(p.k), x.u.vname(p.v), x, x.showPairs(seen))
			}
		}
	}
	want := len(x.pairs)
	if stop > 0 && stop < want {
		want = stop
	}
	if len(seen) != want {
		return fmt.Sprintf("box %d: %s visited %d pair(s), want %d (model %v, visited %v)", bi, name, len(seen), want, x, x.showPairs(seen))
	}
	return ""
}

// nestedCheck: a Range whose callback makes only READ-ONLY calls on the same
// Bimap (the statement's "Range visits every pair exactly once" does not stop
// holding because the callback looks at the map; mutators inside a callback
// are outside the checked domain and never generated).
//
//	variant 0: a full inner Range at outer call number `at` only
//	variant 1: a full inner Range at every outer call; the inner Range at outer call 1 runs a third-level full Range at its call `at`
//	variant 2: an inner Range stopped after 1 + (call mod 3) visits, at every outer call
//	variant 3: Clone (+ Len of the clone), Len, GetForward/GetReverse/Contains* over the universe, at every outer call
//	variant 4: a full Range over every OTHER live box (clones / originals), and an early-stopped one, at every outer call
func nestedCheck[KT, VT comparable](x *box[KT, VT], bi, variant, at int, evals *int, others []*box[KT, VT]) string {
	inner := func(call int) string {
		switch variant {
		case 0:
			if call != at {
				return ""
			}
			return rangeCheck(x, bi, 0, fmt.Sprintf("Range(all) nested in the callback of Range at its call %d", call), nil)
		case 1:
			var third func(int) string
			if call == 1 {
				third = func(c2 int) string {
					if c2 != at {
						return ""
					}
					return rangeCheck(x, bi, 0, "Range(all) nested two levels deep", nil)
				}
			}
			return rangeCheck(x, bi, 0, fmt.Sprintf("Range(all) nested in the callback of Range at its call %d", call), third)
		case 2:
			return rangeCheck(x, bi, 1+call%3, fmt.Sprintf("Range nested in the callback of Range at its call %d", call), nil)
		case 4:
			for oi, o := range others {
				if o == x {
					continue
				}
				if m := rangeCheck(o, oi, 0, fmt.Sprintf("Range(all) nested in the callback of box %d's Range at its call %d", bi, call), nil); m != "" {
					return m
				}
				if m := rangeCheck(o, oi, 1+call%3, fmt.Sprintf("Range nested in the callback of box %d's Range at its call %d", bi, call), nil); m != "" {
					return m
				}
			}
			return ""
		default:
			if got := x.b.Len(); got != len(x.pairs) {
				return fmt.Sprintf("box %d: Len() inside a Range callback = %d, want %d (model %v)", bi, got, len(x.pairs), x)
			}
			cl := x.b.Clone()
			if got := cl.Len(); got != len(x.pairs) {
				return fmt.Sprintf("box %d: Clone() taken inside a Range callback has Len() = %d, want %d (model %v)", bi, got, len(x.pairs), x)
			}
			y := &box[KT, VT]{b: &cl, u: x.u, pairs: x.pairs}
			if m := verify(y, bi, evals); m != "" {
				return "Clone() taken inside a Range callback: " + m
			}
			if m := verify(x, bi, evals); m != "" {
				return "inside a Range callback: " + m
			}
			return ""
		}
	}
	return rangeCheck(x, bi, 0, fmt.Sprintf("Range(all) with read-only callback variant %d", variant), inner)
}

func Run(c Case) pbt.Outcome { return runSmall(c, uniDefault) }

func runSmall[KT, VT comparable](c Case, u *universe[KT, VT]) pbt.Outcome {
	var boxes []*box[KT, VT]
	switch mod(c.Start, 3) {
	case 0:
		var b maps.Bimap[KT, VT]
		boxes = append(boxes, &box[KT, VT]{b: &b, u: u})
	case 1:
		var z maps.Bimap[KT, VT]
		cl := z.Clone()
		boxes = append(boxes, &box[KT, VT]{b: &cl, u: u})
	case 2:
		var o maps.Bimap[KT, VT]
		ob := &box[KT, VT]{b: &o, u: u}
		for i := 0; i < 2; i++ {
			o.Add(u.keys[i], u.vals[i])
			ob.modelAdd(u.keys[i], u.vals[i])
		}
		cl := o.Clone()
		boxes = append(boxes, &box[KT, VT]{b: &cl, u: u, pairs: append([]pair[KT, VT](nil), ob.pairs...)}, ob)
	}
	evals := 0
	verifyAll := func(i int, what string) string {
		for bi, x := range boxes {
			if m := verify(x, bi, &evals); m != "" {
				return fmt.Sprintf("[%s] after op %d (%s): %s", u.name, i, what, m)
			}
		}
		return ""
	}
	if m := verifyAll(-1, "construction"); m != "" {
		return pbt.Fail("%s", m)
	}
	var (
		addFresh, addSame, collKey, collVal, collBoth              int
		clones, mutAfterClone, ranges, rangeStops, rangeStopsEarly int
		remHit, remMiss, clears, clearsNonEmpty                    int
		nested, nestedBig                                          int
		maxPairs                                                   int
		news, gcs, mutAfterNew                                     int
	)
	place := func(nb *box[KT, VT], h, b int) {
		if len(boxes) < maxBoxes {
			boxes = append(boxes, nb)
			return
		}
		slot := mod(b, len(boxes))
		if slot == h { // never drop the source: keep original and clone both alive
			slot = (slot + 1) % len(boxes)
		}
		boxes[slot] = nb
	}
	for i, op := range c.Ops {
		h := mod(op.H, len(boxes))
		x := boxes[h]
		var what string
		switch mod(op.K, nOps) {
		case opAdd:
			k, v := u.key(op.A), u.val(op.B)
			what = fmt.Sprintf("box %d: Add(%s,%s)", h, u.kname(k), u.vname(v))
			oldV, kHit := x.fwd(k)
			_, vHit := x.rev(v)
			switch {
			case kHit && vHit && oldV == v: // the very same pair
				addSame++
			case kHit && vHit:
				collBoth++
			case kHit:
				collKey++
			case vHit:
				collVal++
			default:
				addFresh++
			}
			x.b.Add(k, v)
			x.modelAdd(k, v)
			if len(boxes) > 1 {
				mutAfterClone++
			}
		case opRemFwd:
			k := u.key(op.A)
			what = fmt.Sprintf("box %d: RemoveForward(%s)", h, u.kname(k))
			if _, ok := x.fwd(k); ok {
				remHit++
			} else {
				remMiss++
			}
			x.b.RemoveForward(k)
			x.modelRemove(func(p pair[KT, VT]) bool { return p.k == k })
			if len(boxes) > 1 {
				mutAfterClone++
			}
		case opRemRev:
			v := u.val(op.B)
			what = fmt.Sprintf("box %d: RemoveReverse(%s)", h, u.vname(v))
			if _, ok := x.rev(v); ok {
				remHit++
			} else {
				remMiss++
			}
			x.b.RemoveReverse(v)
			x.modelRemove(func(p pair[KT, VT]) bool { return p.v == v })
			if len(boxes) > 1 {
				mutAfterClone++
			}
		case opClear:
			what = fmt.Sprintf("box %d: Clear()", h)
			clears++
			if len(x.pairs) > 0 {
				clearsNonEmpty++
			}
			x.b.Clear()
			x.pairs = nil
			if len(boxes) > 1 {
				mutAfterClone++
			}
		case opClone:
			what = fmt.Sprintf("box %d: Clone()", h)
			clones++
			cl := x.b.Clone()
			nb := &box[KT, VT]{b: &cl, u: u, pairs: append([]pair[KT, VT](nil), x.pairs...)}
			place(nb, h, op.B)
		case opNew:
			what = "new independent zero-value Bimap"
			news++
			var fresh maps.Bimap[KT, VT]
			nb := &box[KT, VT]{b: &fresh, u: u}
			if mod(op.A, 2) == 1 {
				k, v := u.key(op.A), u.val(op.B)
				what += fmt.Sprintf(" + Add(%s,%s)", u.kname(k), u.vname(v))
				fresh.Add(k, v)
				nb.modelAdd(k, v)
			}
			place(nb, h, op.B)
		case opGC:
			what = "runtime.GC()"
			gcs++
			runtime.GC()
		case opRange:
			what = fmt.Sprintf("box %d: Range(all)", h)
			ranges++
			if m := rangeCheck(x, h, 0, "Range", nil); m != "" {
				return pbt.Fail("[%s] op %d: %s", u.name, i, m)
			}
		case opRangeStop:
			stop := 1 + mod(op.A, 3)
			what = fmt.Sprintf("box %d: Range(stop at %d)", h, stop)
			rangeStops++
			if stop < len(x.pairs) {
				rangeStopsEarly++
			}
			if m := rangeCheck(x, h, stop, "Range", nil); m != "" {
				return pbt.Fail("[%s] op %d: %s", u.name, i, m)
			}
		case opNested:
			variant, at := mod(op.B, 5), 1+mod(op.A, 4)
			what = fmt.Sprintf("box %d: Range with read-only callback (variant %d, at %d)", h, variant, at)
			nested++
			if len(x.pairs) >= 3 {
				nestedBig++
			}
			if m := nestedCheck(x, h, variant, at, &evals, boxes); m != "" {
				return pbt.Fail("[%s] op %d: %s", u.name, i, m)
			}
		case opProbe:
			k, v := u.keys[mod(op.A, uniAll)], u.vals[mod(op.B, uniAll)]
			what = fmt.Sprintf("box %d: probe key %s value %s", h, u.kname(k), u.vname(v))
			wv, wok := x.fwd(k)
			if gv, gok := x.b.GetForward(k); gok != wok || (wok && gv != wv) {
				return pbt.Fail("[%s] op %d: box %d: GetForward(%s) = %s, want %s (model %v)", u.name, i, h, u.kname(k), res(u.vname(gv), gok), res(u.vname(wv), wok), x)
			}
			if got := x.b.ContainsForward(k); got != wok {
				return pbt.Fail("[%s] op %d: box %d: ContainsForward(%s) = %v, want %v (model %v)", u.name, i, h, u.kname(k), got, wok, x)
			}
			wk, wok2 := x.rev(v)
			if gk, gok := x.b.GetReverse(v); gok != wok2 || (wok2 && gk != wk) {
				return pbt.Fail("[%s] op %d: box %d: GetReverse(%s) = %s, want %s (model %v)", u.name, i, h, u.vname(v), res(u.kname(gk), gok), res(u.kname(wk), wok2), x)
			}
			if got := x.b.ContainsReverse(v); got != wok2 {
				return pbt.Fail("[%s] op %d: box %d: ContainsReverse(%s) = %v, want %v (model %v)", u.name, i, h, u.vname(v), got, wok2, x)
			}
		case opLen:
			what = fmt.Sprintf("box %d: Len()", h)
			if got := x.b.Len(); got != len(x.pairs) {
				return pbt.Fail("[%s] op %d: box %d: Len() = %d, want %d (model %v)", u.name, i, h, got, len(x.pairs), x)
			}
		}
		if k := mod(op.K, nOps); news > 0 && k <= opClear {
			mutAfterNew++
		}
		evals++
		if len(x.pairs) > maxPairs {
			maxPairs = len(x.pairs)
		}
		if m := verifyAll(i, what); m != "" {
			return pbt.Fail("%s", m)
		}
	}

	out := pbt.Outcome{Evals: evals}
	out.NonTrivial = collKey > 0 && collVal > 0 && collBoth > 0
	lab := func(cond bool, l string) {
		if cond {
			out.Labels = append(out.Labels, l)
		}
	}
	out.Labels = append(out.Labels, fmt.Sprintf("start=%d", mod(c.Start, 3)))
	lab(addFresh > 0, "add-fresh")
	lab(addSame > 0, "add-same-pair")
	lab(collKey > 0, "add-collide-key-only")
	lab(collVal > 0, "add-collide-value-only")
	lab(collBoth > 0, "add-collide-both(3-pair-eviction)")
	lab(collBoth >= 2, "3-pair-eviction>=2")
	lab(remHit > 0, "remove-present")
	lab(remMiss > 0, "remove-absent")
	lab(clearsNonEmpty > 0, "clear-nonempty")
	lab(clears > clearsNonEmpty, "clear-empty")
	lab(clones > 0, "clone")
	lab(clones > 0 && mutAfterClone > 0, "clone+mutation-afterwards")
	lab(news > 0, "independent-bimap")
	lab(news > 0 && mutAfterNew >= 4, "independent-bimaps-mutated-alternately(>=4 calls)")
	lab(gcs > 0, "gc-between-calls")
	lab(ranges > 0, "range-all")
	lab(rangeStopsEarly > 0, "range-stopped-early")
	lab(rangeStops > rangeStopsEarly, "range-stop-not-reached")
	lab(nested > 0, "range-with-readonly-callback")
	lab(nestedBig > 0, "nested-range-on>=3-pairs")
	lab(maxPairs >= 4, "full(4 pairs)")
	lab(maxPairs == 3, "max-3-pairs")
	lab(maxPairs <= 2, "max<=2-pairs")
	switch {
	case len(c.Ops) >= 25:
		out.Labels = append(out.Labels, "ops>=25")
	case len(c.Ops) >= 8:
		out.Labels = append(out.Labels, "ops=8..24")
	default:
		out.Labels = append(out.Labels, "ops<8")
	}
	return out
}

var kindTable = []int{
	opAdd, opAdd, opAdd, opAdd, opAdd, opAdd, opAdd, opAdd, opAdd, opAdd,
	opRemFwd, opRemFwd, opRemRev, opRemRev, opClear,
	opClone, opClone, opRange, opRangeStop, opProbe, opLen, opNested, opNew,
}

var opGen = rapid.Custom(func(t *rapid.T) Op {
	op := Op{
		K: rapid.SampledFrom(kindTable).Draw(t, "k"),
		H: rapid.IntRange(0, 3).Draw(t, "h"),
		A: rapid.IntRange(0, 5).Draw(t, "a"),
		B: rapid.IntRange(0, 5).Draw(t, "b"),
	}
	// a quarter of the Adds go on the diagonal k -> 100+k so that maps fill up to 4 pairs
	if op.K == opAdd && rapid.IntRange(0, 3).Draw(t, "diag") == 0 {
		op.B = op.A
	}
	return op
})

func genCase(t *rapid.T) Case {
	c := Case{Start: rapid.IntRange(0, 2).Draw(t, "start")}
	// rapid's IntRange and SliceOfN lean heavily towards short lists; a drawn minimum length (max of two
	// draws) flattens the length distribution while SliceOfN keeps element-wise shrinking.
	lo := rapid.IntRange(0, 45).Draw(t, "minops")
	if l2 := rapid.IntRange(0, 45).Draw(t, "minops2"); l2 > lo {
		lo = l2
	}
	c.Ops = rapid.SliceOfN(opGen, lo, 50).Draw(t, "ops")
	if c.Ops == nil {
		c.Ops = []Op{}
	}
	// A garbage collection between two calls costs as much as hundreds of cases: about one case in a hundred gets one or two
	// (a non-boundary value of the range is tested, rapid draws 0 and the ends far more often than the rest).
	if len(c.Ops) > 0 && rapid.IntRange(0, 63).Draw(t, "gc") == 37 {
		c.Ops[rapid.IntRange(0, len(c.Ops)-1).Draw(t, "gcat")].K = opGC
		c.Ops[rapid.IntRange(0, len(c.Ops)-1).Draw(t, "gcat2")].K = opGC
	}
	return c
}

const randMix = "rapid: start 0..2, 0..50 ops (Add 43%, RemoveForward/RemoveReverse 17%, Clear 4%, Clone 9%, new independent Bimap 4%, Range/Range-with-stop 9%, Range with read-only nested calls 4%, probes/Len 9%, runtime.GC() once or twice in about 1% of the cases), box/key/value raw ints reduced at run time; "

var specRand = pbt.Register(&pbt.Spec[Case]{
	Property: "C11", Name: "C11.rand", Rule: randMix + "Bimap[K,V] with K, V distinct named int types, keys 0..3 (+4,5 probe-only), values 100..103 (+104,105); " + rule,
	Gen: genCase,
	Run: Run, Quick: 30000, Thorough: 200000,
})

// Exhaustive small scope: one box (zero value), universe 3 keys x 3 values,
// alphabet = 9 Adds + 3 RemoveForward + 3 RemoveReverse + Clear = 16 calls,
// every sequence up to a length bound. Every call is followed by the full
// universe check, so Get*/Contains*/Len need no letters of their own.
const enumAlphabet = 16

func enumOp(code int) Op {
	switch {
	case code < 9:
		return Op{K: opAdd, A: code / 3, B: code % 3}
	case code < 12:
		return Op{K: opRemFwd, A: code - 9}
	case code < 15:
		return Op{K: opRemRev, B: code - 12}
	}
	return Op{K: opClear}
}

var specEnum = pbt.Register(&pbt.Spec[Case]{
	Property: "C11", Name: "C11.enum", Rule: "exhaustive: zero-value Bimap, every sequence of length 0..5 (thorough: 0..6) over the 16 calls {Add(k,v) k in 0..2, v in 100..102; RemoveForward(k); RemoveReverse(v); Clear}; " + rule,
	Enum: func(shard, shards int, tier string, yield func(Case) bool) {
		maxLen := 5
		if tier == "thorough" {
			maxLen = 6
		}
		idx := 0
		for l := 0; l <= maxLen; l++ {
			total := 1
			for i := 0; i < l; i++ {
				total *= enumAlphabet
			}
			for code := 0; code < total; code++ {
				idx++
				if shards > 1 && idx%shards != shard {
					continue
				}
				ops := make([]Op, l)
				x := code
				for i := 0; i < l; i++ {
					ops[i] = enumOp(x % enumAlphabet)
					x /= enumAlphabet
				}
				if !yield(Case{Start: 0, Ops: ops}) {
					return
				}
			}
		}
	},
	Run: Run, Exhaustive: true,
})

func TestC11Enum(t *testing.T) { pbt.Check(t, specEnum) }
func TestC11Rand(t *testing.T) { pbt.Check(t, specRand) }
func TestReplay(t *testing.T)  { pbt.Replay(t) }
