package c11

import (
	"math"
	"testing"

	"pgregory.net/rapid"
	"verifharness/internal/pbt"
)

// C11.types: the small-universe machine of C11.rand over other instantiations
// of Bimap[K, V comparable]. The statement is about keys and values as Go
// compares them (==), so each universe below puts pressure on one way an
// implementation could replace == / the built-in map by something else:
//
//	0 int->int          same type on both sides, OVERLAPPING universes 0..5 (zero value is a key and a value)
//	1 string->string    "", a NUL byte, prefix-related strings, same strings on both sides
//	2 float64->float64  +0.0 and -0.0 are ONE key/value (==) with different bit patterns; +-Inf, MaxFloat64, denormal (no NaN: not == to itself, outside the domain)
//	3 any->any          nil interface, equal numbers of different dynamic types (int 0, int8 0, uint 0, 0.0), "0", arrays, bool, struct{}
//	4 struct{}->int     zero-size key type: every key is the same key, so the map holds at most one pair
//	5 int->struct{}     zero-size value type
//	6 *int->[2]int8     pointer keys (nil included; distinct pointers to equal ints are distinct keys), array values
//	7 MK->MV            named types with their own String()/Error()/GoString() methods that return the SAME text for different values
//	8 bool->uint8       two-element key type, values at the type's range ends
type TCase struct {
	T     int  `json:"t"`
	Start int  `json:"start"`
	Ops   []Op `json:"ops"`
}

// MK and MV print identically for all values: an implementation that keys by
// fmt output instead of == would conflate them.
type MK struct{ A, B int8 }

func (MK) String() string   { return "MK" }
func (MK) GoString() string { return "MK" }
func (MK) Error() string    { return "MK" }

type MV float32

func (MV) String() string   { return "MV" }
func (MV) GoString() string { return "MV" }

var negZero = math.Copysign(0, -1)

var ptrTargets [6]int // all zero: distinct pointers to equal ints

var typeRunners = []struct {
	name string
	run  func(Case) pbt.Outcome
}{
	{"int->int(overlapping)", func(c Case) pbt.Outcome {
		return runSmall(c, &universe[int, int]{name: "int->int",
			keys: []int{0, 1, 2, 3, 4, 5}, vals: []int{1, 0, 3, 2, 5, 4},
			kn: []string{"0", "1", "2", "3", "4", "5"}, vn: []string{"1", "0", "3", "2", "5", "4"}})
	}},
	{"string->string", func(c Case) pbt.Outcome {
		return runSmall(c, &universe[string, string]{name: "string->string",
			keys: []string{"", "a", "ab", "\x00", "abc", "A"}, vals: []string{"a", "", "\x00", "a\x00", "ab", " "},
			kn: []string{`""`, `"a"`, `"ab"`, `"\x00"`, `"abc"`, `"A"`}, vn: []string{`"a"`, `""`, `"\x00"`, `"a\x00"`, `"ab"`, `" "`}})
	}},
	{"float64->float64(+-0)", func(c Case) pbt.Outcome {
		return runSmall(c, &universe[float64, float64]{name: "float64->float64",
			keys: []float64{0, negZero, 1, -1, math.Inf(1), math.Inf(-1)},
			vals: []float64{negZero, 0, math.MaxFloat64, math.SmallestNonzeroFloat64, -math.MaxFloat64, math.Inf(1)},
			kn:   []string{"+0.0", "-0.0", "1", "-1", "+Inf", "-Inf"}, vn: []string{"-0.0", "+0.0", "MaxFloat64", "denormal", "-MaxFloat64", "+Inf"}})
	}},
	{"any->any", func(c Case) pbt.Outcome {
		return runSmall(c, &universe[any, any]{name: "any->any",
			keys: []any{nil, 0, int8(0), "0", 0.0, [1]int{0}},
			vals: []any{"", nil, false, uint(0), struct{}{}, negZero},
			kn:   []string{"nil", "int(0)", "int8(0)", `"0"`, "float64(0)", "[1]int{0}"}, vn: []string{`""`, "nil", "false", "uint(0)", "struct{}{}", "float64(-0.0)"}})
	}},
	{"struct{}->int(zero-size key)", func(c Case) pbt.Outcome {
		return runSmall(c, &universe[struct{}, int]{name: "struct{}->int",
			keys: make([]struct{}, uniAll), vals: []int{0, -1, math.MaxInt, math.MinInt, 7, 8},
			kn: []string{"{}", "{}", "{}", "{}", "{}", "{}"}, vn: []string{"0", "-1", "MaxInt", "MinInt", "7", "8"}})
	}},
	{"int->struct{}(zero-size value)", func(c Case) pbt.Outcome {
		return runSmall(c, &universe[int, struct{}]{name: "int->struct{}",
			keys: []int{0, -1, math.MaxInt, math.MinInt, 7, 8}, vals: make([]struct{}, uniAll),
			kn: []string{"0", "-1", "MaxInt", "MinInt", "7", "8"}, vn: []string{"{}", "{}", "{}", "{}", "{}", "{}"}})
	}},
	{"*int->[2]int8", func(c Case) pbt.Outcome {
		p := &ptrTargets
		return runSmall(c, &universe[*int, [2]int8]{name: "*int->[2]int8",
			keys: []*int{nil, &p[1], &p[2], &p[3], &p[4], &p[5]},
			vals: [][2]int8{{0, 0}, {0, 1}, {1, 0}, {-128, 127}, {1, 1}, {127, -128}},
			kn:   []string{"nil", "p1", "p2", "p3", "p4", "p5"}, vn: []string{"[0 0]", "[0 1]", "[1 0]", "[-128 127]", "[1 1]", "[127 -128]"}})
	}},
	{"MK->MV(types with methods)", func(c Case) pbt.Outcome {
		return runSmall(c, &universe[MK, MV]{name: "MK->MV",
			keys: []MK{{0, 0}, {0, 1}, {1, 0}, {1, 1}, {2, 2}, {-1, -1}}, vals: []MV{0, 1, -1, 0.5, 2, 3},
			kn: []string{"MK{0,0}", "MK{0,1}", "MK{1,0}", "MK{1,1}", "MK{2,2}", "MK{-1,-1}"}, vn: []string{"MV(0)", "MV(1)", "MV(-1)", "MV(0.5)", "MV(2)", "MV(3)"}})
	}},
	{"bool->uint8", func(c Case) pbt.Outcome {
		return runSmall(c, &universe[bool, uint8]{name: "bool->uint8",
			keys: []bool{false, true, false, true, true, false}, vals: []uint8{0, 255, 1, 128, 2, 254},
			kn: []string{"false", "true", "false", "true", "true", "false"}, vn: []string{"0", "255", "1", "128", "2", "254"}})
	}},
}

func RunTyped(c TCase) pbt.Outcome {
	r := typeRunners[mod(c.T, len(typeRunners))]
	out := r.run(Case{Start: c.Start, Ops: c.Ops})
	out.Labels = append(out.Labels, "types="+r.name)
	return out
}

// typed enumeration: every instantiation x every start x a fixed script that
// goes through all collision patterns, removals, Clear, Clone and the Range
// variants, so that each instantiation is exercised even when the random part
// is scaled down.
func typedScript() []Op {
	var ops []Op
	for a := 0; a < uniAdd; a++ { // diagonal fill
		ops = append(ops, Op{K: opAdd, A: a, B: a})
	}
	ops = append(ops, Op{K: opRange}, Op{K: opNested, A: 1, B: 1}, Op{K: opNested, A: 0, B: 2}, Op{K: opNested, A: 2, B: 0}, Op{K: opNested, B: 3}, Op{K: opClone}, Op{K: opNested, B: 4}, Op{K: opNested, H: 1, B: 4})
	ops = append(ops,
		Op{K: opAdd, A: 0, B: 1},                        // both collide: 3-pair eviction
		Op{K: opAdd, A: 1, B: 0},                        // fresh again
		Op{K: opAdd, A: 2, B: 2},                        // same pair
		Op{K: opAdd, A: 2, B: 3},                        // both collide
		Op{K: opRemFwd, A: 0}, Op{K: opAdd, A: 0, B: 2}, // fresh key, fresh value
		Op{K: opRemRev, B: 3}, Op{K: opAdd, A: 3, B: 0}, // fresh key, colliding value
		Op{K: opClone, H: 0}, Op{K: opAdd, H: 1, A: 1, B: 3}, Op{K: opRemFwd, H: 0, A: 3}, Op{K: opClear, H: 1},
		Op{K: opRangeStop, H: 0, A: 0}, Op{K: opRangeStop, H: 0, A: 1}, Op{K: opRange, H: 0},
		Op{K: opClear, H: 0}, Op{K: opAdd, H: 0, A: 3, B: 3}, Op{K: opProbe, A: 4, B: 5}, Op{K: opLen},
		// two independent Bimaps used alternately, with a garbage collection in between
		Op{K: opNew, H: 0, A: 1, B: 1}, Op{K: opAdd, H: 0, A: 1, B: 2}, Op{K: opNew, H: 0, A: 0, B: 2}, Op{K: opGC},
		Op{K: opAdd, H: 3, A: 1, B: 2}, Op{K: opAdd, H: 2, A: 2, B: 1}, Op{K: opClear, H: 3}, Op{K: opAdd, H: 2, A: 3, B: 1}, Op{K: opRemRev, H: 0, B: 2},
		Op{K: opGC}, Op{K: opAdd, H: 3, A: 0, B: 0}, Op{K: opRange, H: 2}, Op{K: opNested, H: 3, B: 4},
	)
	return ops
}

var specTypes = pbt.Register(&pbt.Spec[TCase]{
	Property: "C11", Name: "C11.types",
	Rule: "the C11.rand machine over 9 other Bimap instantiations, chosen per case: int->int with OVERLAPPING key/value universes containing the zero value; string->string with \"\", NUL, prefixes; " +
		"float64->float64 where +0.0/-0.0 are the same key and the same value (no NaN); any->any with nil and equal numbers of different dynamic types; zero-size struct{} as key type (at most one pair) and as value type; " +
		"*int (nil, distinct pointers to equal ints) -> [2]int8; named types whose String/GoString/Error methods return one text for all values; bool->uint8; model and oracle compare with Go's == only; " +
		"enumerated: a fixed script (all collision patterns, removals, Clear, Clone, all Range variants, two independent Bimaps used alternately around runtime.GC()) x 3 starts x every instantiation, then " + randMix + rule,
	Enum: func(shard, shards int, tier string, yield func(TCase) bool) {
		idx := 0
		for t := range typeRunners {
			for start := 0; start < 3; start++ {
				idx++
				if shards > 1 && idx%shards != shard {
					continue
				}
				if !yield(TCase{T: t, Start: start, Ops: typedScript()}) {
					return
				}
			}
		}
	},
	Gen: func(t *rapid.T) TCase {
		ty := rapid.IntRange(0, len(typeRunners)-1).Draw(t, "type")
		c := genCase(t)
		return TCase{T: ty, Start: c.Start, Ops: c.Ops}
	},
	Run: RunTyped, Quick: 9000, Thorough: 100000,
})

func TestC11Types(t *testing.T) { pbt.Check(t, specTypes) }
