package c11

import (
	"fmt"
	"testing"
	"time"

	"gopkg.in/typ.v4/maps"
	"pgregory.net/rapid"
	"verifharness/internal/pbt"
)

// C11.repeat / C11.wrap32: ONE cheap call cycle repeated very many times on one Bimap.
//
// The statement quantifies over "any sequence" of calls; the other units generate sequences of up to a few
// thousand calls. Anything inside the implementation that COUNTS calls (generations / epochs stamped on entries
// instead of deleting them, modification counters, lazily swept tombstones, hit counters of caches) can wrap
// around or cross a threshold only after 2^8, 2^16, 2^24 or 2^32 repetitions - so these units make histories
// that long out of segments "cycle P repeated N times":
//
//	 0 Clear                                             8 GetForward(key i) + GetReverse(val i) + Contains* + Len (reads only)
//	 1 Add(key i, val i); Clear                          9 RemoveForward(absent key); RemoveReverse(absent value)
//	 2 Add(key i, val i+i/4)  (all collision patterns)  10 Add of one and the same pair
//	 3 Add(key i, val i); RemoveForward(key i)          11 Add(key 0, val i%2)  (same key, alternating value)
//	 4 Add(key i, val i); RemoveReverse(val i)          12 Len
//	 5 b = b.Clone()  (chain: continue on the clone)    13 GetForward(key 0)
//	 6 c := b.Clone(); c.Clear()  (clone dropped)       14 Clear; Add(key i, val i)
//	 7 Range(all)                                       15 Add(key i, val i); Add(key i+1, val i)  (value-collision eviction each time)
//	16 a NEW zero-value Bimap gets one Add, is checked and dropped (the first Bimap must not notice the 2^16 others)
//
// (key i / val i = the i-th of the 4 addable keys / values, i counted per segment.) `Left` pairs are added before
// the first segment, so that e.g. the Clear cycle starts by leaving pairs behind.
//
// Oracle: the small-universe model of C11.rand (verify: every key and value of the universe, both directions,
// inverse on the library's own answers, Len). It is evaluated after EVERY repetition up to repetition 2^16+64 of the
// case, and afterwards whenever the repetition count of the case or of the segment is within +-4 of a multiple of
// 2^8 (up to 2^20+64 repetitions) or of 2^16 (beyond) - a wrapped counter shows at exactly such a count - and at the
// end of every segment. After the last segment a fixed tail of ordinary calls (colliding Adds, Range, Clone with
// both sides mutated, removals, Clear) is run with verification after every call: the map must still work as usual.
type RSeg struct {
	P int   `json:"p"`
	N int64 `json:"n"`
}

type RCase struct {
	Left int    `json:"left"`
	Segs []RSeg `json:"segs"`
}

const (
	rClear = iota
	rAddClear
	rAddRot
	rAddRemFwd
	rAddRemRev
	rCloneChain
	rCloneClear
	rRange
	rReads
	rRemAbsent
	rAddSame
	rAddAlt
	rLen
	rGetFwd
	rClearAdd
	rAddEvict
	rNewBimap
	nRepeat
)

var repeatNames = [nRepeat]string{"Clear", "Add;Clear", "Add(rotating collisions)", "Add;RemoveForward", "Add;RemoveReverse", "b=b.Clone()", "Clone;Clear-the-clone", "Range",
	"reads", "Remove*(absent)", "Add(same pair)", "Add(same key, alternating value)", "Len", "GetForward", "Clear;Add", "Add;Add(value collision)", "new Bimap;Add"}

const (
	repEvery   = 1<<16 + 64 // every repetition is verified up to here
	repMidTill = 1<<20 + 64 // windows around multiples of 2^8 up to here, of 2^16 beyond
)

// repCheckpoint reports whether the model is compared after repetition number c (1-based).
func repCheckpoint(c int64) bool {
	switch {
	case c <= repEvery:
		return true
	case c <= repMidTill:
		return (c+4)&0xFF <= 8
	}
	return (c+4)&0xFFFF <= 8
}

// repNext returns the smallest checkpoint > c.
func repNext(c int64) int64 {
	c++
	if c <= repEvery {
		return c
	}
	mask := int64(0xFFFF)
	if c <= repMidTill {
		mask = 0xFF
	}
	if r := (c + 4) & mask; r > 8 {
		c += mask + 1 - r
	}
	return c
}

type repRun struct {
	x      *box[K, V]
	evals  int
	sink   int
	recent [4]*maps.Bimap[K, V]
}

// burst executes repetitions i0 .. i0+k-1 (segment-local numbers) of cycle p. Returns a message on an inline mismatch.
func (r *repRun) burst(p int, i0, k int64) string {
	x, u := r.x, r.x.u
	b := x.b
	switch p {
	case rClear: // tight loops for the cycles that are repeated 2^32 times
		for j := int64(0); j < k; j++ {
			b.Clear()
		}
		x.pairs = nil
		return ""
	case rLen:
		want := len(x.pairs)
		bad := 0
		for j := int64(0); j < k; j++ {
			if b.Len() != want {
				bad++
			}
		}
		if bad > 0 {
			return fmt.Sprintf("Len() != %d in %d of %d consecutive calls (model %v)", want, bad, k, x)
		}
		return ""
	case rGetFwd:
		k0 := u.key(0)
		wv, wok := x.fwd(k0)
		bad := 0
		for j := int64(0); j < k; j++ {
			if gv, gok := b.GetForward(k0); gok != wok || (wok && gv != wv) {
				bad++
			}
		}
		if bad > 0 {
			return fmt.Sprintf("GetForward(%s) != (%s,%v) in %d of %d consecutive calls (model %v)", u.kname(k0), u.vname(wv), wok, bad, k, x)
		}
		return ""
	case rRemAbsent:
		if k >= 1024 { // tight loop for the long runs; the short ones rotate over two absent keys and values below
			ak, av := u.keys[4], u.vals[5]
			for j := int64(0); j < k; j++ {
				b.RemoveForward(ak)
				b.RemoveReverse(av)
			}
			return ""
		}
	}
	for i := i0; i < i0+k; i++ {
		a := int(i % 1024)
		switch p {
		case rAddClear:
			x.b.Add(u.key(a), u.val(a))
			x.b.Clear()
			x.pairs = nil
		case rAddRot:
			kk, vv := u.key(a), u.val(a+a/4)
			x.b.Add(kk, vv)
			x.modelAdd(kk, vv)
		case rAddRemFwd:
			kk, vv := u.key(a), u.val(a)
			x.b.Add(kk, vv)
			x.modelAdd(kk, vv)
			x.b.RemoveForward(kk)
			x.modelRemove(func(q pair[K, V]) bool { return q.k == kk })
		case rAddRemRev:
			kk, vv := u.key(a), u.val(a)
			x.b.Add(kk, vv)
			x.modelAdd(kk, vv)
			x.b.RemoveReverse(vv)
			x.modelRemove(func(q pair[K, V]) bool { return q.v == vv })
		case rCloneChain:
			cl := x.b.Clone()
			x.b = &cl
		case rCloneClear:
			cl := x.b.Clone()
			if got := cl.Len(); got != len(x.pairs) {
				return fmt.Sprintf("Clone().Len() = %d, want %d (model %v)", got, len(x.pairs), x)
			}
			cl.Clear()
		case rRange:
			n := 0
			x.b.Range(func(K, V) bool { n++; return true })
			if n != len(x.pairs) {
				return fmt.Sprintf("Range visited %d pair(s), want %d (model %v)", n, len(x.pairs), x)
			}
		case rReads:
			kk, vv := u.keys[a%uniAll], u.vals[(a/2)%uniAll]
			if x.b.ContainsForward(kk) {
				r.sink++
			}
			if _, ok := x.b.GetForward(kk); ok {
				r.sink++
			}
			if x.b.ContainsReverse(vv) {
				r.sink++
			}
			if _, ok := x.b.GetReverse(vv); ok {
				r.sink++
			}
			r.sink += x.b.Len()
		case rRemAbsent:
			x.b.RemoveForward(u.keys[4+a%2])
			x.b.RemoveReverse(u.vals[4+(a/2)%2])
		case rAddSame:
			x.b.Add(u.key(0), u.val(0))
			if i == i0 {
				x.modelAdd(u.key(0), u.val(0))
			}
		case rAddAlt:
			x.b.Add(u.key(0), u.val(a%2))
			x.modelAdd(u.key(0), u.val(a%2))
		case rClearAdd:
			x.b.Clear()
			x.b.Add(u.key(a), u.val(a))
			x.pairs = append(x.pairs[:0:0], pair[K, V]{u.key(a), u.val(a)})
		case rAddEvict:
			x.b.Add(u.key(a), u.val(a))
			x.modelAdd(u.key(a), u.val(a))
			x.b.Add(u.key(a+1), u.val(a))
			x.modelAdd(u.key(a+1), u.val(a))
		case rNewBimap:
			// another, unrelated Bimap is created, used once and dropped; the 4 most recent ones stay alive
			nb := new(maps.Bimap[K, V])
			kk, vv := u.key(a), u.val(a+1)
			nb.Add(kk, vv)
			gv, ok1 := nb.GetForward(kk)
			gk, ok2 := nb.GetReverse(vv)
			if !ok1 || !ok2 || gv != vv || gk != kk || nb.Len() != 1 {
				return fmt.Sprintf("a new zero-value Bimap after Add(%s,%s): GetForward = (%s,%v), GetReverse = (%s,%v), Len = %d", u.kname(kk), u.vname(vv), u.vname(gv), ok1, u.kname(gk), ok2, nb.Len())
			}
			r.recent[i%4] = nb
		}
	}
	return ""
}

func RunRepeat(c RCase) pbt.Outcome {
	var b0 maps.Bimap[K, V]
	u := uniDefault
	r := &repRun{x: &box[K, V]{b: &b0, u: u}}
	x := r.x
	for i := 0; i < mod(c.Left, uniAdd+1); i++ {
		x.b.Add(u.key(i), u.val(i))
		x.modelAdd(u.key(i), u.val(i))
	}
	if m := verify(x, 0, &r.evals); m != "" {
		return pbt.Fail("after adding the %d initial pair(s): %s", len(x.pairs), m)
	}
	var total int64
	var labels []string
	for si, sg := range c.Segs {
		p := mod(sg.P, nRepeat)
		n := sg.N
		if n < 0 {
			n = 0
		}
		labels = append(labels, "cycle="+repeatNames[p])
		where := func(done int64) string {
			return fmt.Sprintf("segment %d (%d x %s; %d initial pair(s)), after repetition %d of the segment (%d of the case)", si, n, repeatNames[p], mod(c.Left, uniAdd+1), done, total)
		}
		for done := int64(0); done < n; {
			// next checkpoint in case-wide or segment-local counting, whichever comes first
			k := repNext(total) - total
			if k2 := repNext(done) - done; k2 < k {
				k = k2
			}
			if k > n-done {
				k = n - done
			}
			msg := r.burst(p, done, k)
			done += k
			total += k
			r.evals += int(k)
			if msg != "" {
				return pbt.Fail("%s: %s", where(done), msg)
			}
			if repCheckpoint(total) || repCheckpoint(done) || done == n {
				if m := verify(x, 0, &r.evals); m != "" {
					return pbt.Fail("%s: %s", where(done), m)
				}
			}
		}
	}

	// tail: the map must still work as usual
	step := 0
	check := func(what string, boxes ...*box[K, V]) string {
		step++
		for bi, y := range boxes {
			if m := verify(y, bi, &r.evals); m != "" {
				return fmt.Sprintf("tail call %d (%s) after %d repetitions: %s", step, what, total, m)
			}
		}
		return ""
	}
	add := func(y *box[K, V], a, b int) string {
		y.b.Add(u.key(a), u.val(b))
		y.modelAdd(u.key(a), u.val(b))
		return fmt.Sprintf("Add(%s,%s)", u.kname(u.key(a)), u.vname(u.val(b)))
	}
	if m := check(add(x, 3, 0), x); m != "" {
		return pbt.Fail("%s", m)
	}
	if m := check(add(x, 0, 1), x); m != "" {
		return pbt.Fail("%s", m)
	}
	if m := check(add(x, 2, 2), x); m != "" {
		return pbt.Fail("%s", m)
	}
	if m := rangeCheck(x, 0, 0, "Range in the tail", nil); m != "" {
		return pbt.Fail("after %d repetitions: %s", total, m)
	}
	cl := x.b.Clone()
	y := &box[K, V]{b: &cl, u: u, pairs: append([]pair[K, V](nil), x.pairs...)}
	if m := check("Clone()", x, y); m != "" {
		return pbt.Fail("%s", m)
	}
	if m := check("clone: "+add(y, 2, 3), x, y); m != "" {
		return pbt.Fail("%s", m)
	}
	x.b.RemoveForward(u.key(0))
	x.modelRemove(func(q pair[K, V]) bool { return q.k == u.key(0) })
	if m := check("RemoveForward(0)", x, y); m != "" {
		return pbt.Fail("%s", m)
	}
	x.b.RemoveReverse(u.val(0))
	x.modelRemove(func(q pair[K, V]) bool { return q.v == u.val(0) })
	if m := check("RemoveReverse(100)", x, y); m != "" {
		return pbt.Fail("%s", m)
	}
	if m := rangeCheck(y, 1, 0, "Range over the clone in the tail", nil); m != "" {
		return pbt.Fail("after %d repetitions: %s", total, m)
	}
	x.b.Clear()
	x.pairs = nil
	if m := check("Clear()", x, y); m != "" {
		return pbt.Fail("%s", m)
	}
	if m := check(add(x, 1, 1), x, y); m != "" {
		return pbt.Fail("%s", m)
	}

	out := pbt.Outcome{Evals: r.evals, NonTrivial: total > 1<<16, Labels: labels}
	switch {
	case total > 1<<32:
		out.Labels = append(out.Labels, "repetitions>2^32")
	case total > 1<<24:
		out.Labels = append(out.Labels, "repetitions>2^24")
	case total > 1<<20:
		out.Labels = append(out.Labels, "repetitions>2^20")
	case total > 1<<16:
		out.Labels = append(out.Labels, "repetitions>2^16")
	case total > 1<<8:
		out.Labels = append(out.Labels, "repetitions>2^8")
	default:
		out.Labels = append(out.Labels, "repetitions<=2^8")
	}
	out.Labels = append(out.Labels, fmt.Sprintf("initial-pairs=%d", mod(c.Left, uniAdd+1)))
	if len(c.Segs) > 1 {
		out.Labels = append(out.Labels, "segments>1")
	}
	return out
}

func repeatEnum(tier string) []RCase {
	var cs []RCase
	base := int64(1<<16 + 8)
	for p := 0; p < nRepeat; p++ {
		for _, left := range []int{0, 3} {
			cs = append(cs, RCase{Left: left, Segs: []RSeg{{P: p, N: base}}})
		}
	}
	// the Clear cycle with every number of pairs left behind; pairs left behind at different counts
	for _, left := range []int{1, 2, 4} {
		cs = append(cs, RCase{Left: left, Segs: []RSeg{{P: rClear, N: base}}})
	}
	cs = append(cs,
		RCase{Left: 2, Segs: []RSeg{{P: rClear, N: 100}, {P: rAddClear, N: 3}, {P: rClear, N: base}}},
		RCase{Left: 1, Segs: []RSeg{{P: rAddClear, N: 300}, {P: rReads, N: 10}, {P: rClear, N: 1<<16 - 2}, {P: rAddRot, N: 7}, {P: rClear, N: 1<<16 + 3}}},
		RCase{Left: 4, Segs: []RSeg{{P: rClear, N: 1 << 16}, {P: rAddRot, N: 9}, {P: rClear, N: 1 << 16}, {P: rClearAdd, N: 1 << 8}, {P: rClear, N: 1<<16 - 1<<8}}},
		RCase{Left: 3, Segs: []RSeg{{P: rCloneChain, N: 255}, {P: rClear, N: 1 << 8}, {P: rCloneChain, N: 1}, {P: rClear, N: 1 << 16}}},
	)
	// longer runs of the cheapest cycles
	long := []int64{1<<20 + 8, 1<<24 + 8}
	if tier == "thorough" {
		long = append(long, 1<<26+8, 1<<28+8)
	}
	for _, n := range long {
		cs = append(cs,
			RCase{Left: 2, Segs: []RSeg{{P: rClear, N: n}}},
			RCase{Left: 4, Segs: []RSeg{{P: rLen, N: n}}},
			RCase{Left: 1, Segs: []RSeg{{P: rGetFwd, N: n}}},
			RCase{Left: 3, Segs: []RSeg{{P: rRemAbsent, N: n}}},
		)
	}
	mid := []int64{1<<18 + 8}
	if tier == "thorough" {
		mid = append(mid, 1<<20+8, 1<<22+8)
	}
	for _, n := range mid {
		for p := 0; p < nRepeat; p++ {
			if p == rClear || p == rLen || p == rGetFwd || p == rRemAbsent {
				continue
			}
			if n > 1<<20+8 && (p == rCloneChain || p == rCloneClear) { // allocation-heavy
				continue
			}
			cs = append(cs, RCase{Left: 2, Segs: []RSeg{{P: p, N: n}}})
		}
	}
	return cs
}

const repeatRule = "histories made of segments \"cycle P repeated N times\" on one Bimap[K,V] (K, V named int types, 4 addable + 2 probe-only keys and values) that starts with 0..4 pairs; 17 cycles: " +
	"Clear | Add;Clear | Add with rotating collision patterns | Add;RemoveForward | Add;RemoveReverse | b=b.Clone() chain | Clone;Clear of the clone | Range | reads | removals of absent keys/values | Add of the same pair | Add of one key with alternating values | Len | GetForward | Clear;Add | Add;Add with a value collision | a new unrelated Bimap created, used and dropped; " +
	"oracle: the C11.rand model over the whole universe (both directions, inverse on the library's answers, Contains*, Len) after EVERY repetition up to 2^16+64, then within +-4 of every multiple of 2^8 (up to 2^20+64 repetitions) or 2^16 (beyond) in case-wide and in segment-local counting, and at the end of every segment; " +
	"then a tail of ordinary calls (colliding Adds, Range, Clone with both sides mutated, removals, Clear) verified after every call; non-trivial = more than 2^16 repetitions in the case; "

var specRepeat = pbt.Register(&pbt.Spec[RCase]{
	Property: "C11", Name: "C11.repeat",
	Rule: repeatRule +
		"enumerated: every cycle x 2^16+8 repetitions x {0, 3} initial pairs; Clear x 2^16+8 with 1, 2, 4 pairs left behind; 4 multi-segment histories (pairs left behind at different Clear counts, Clears split around other calls, a clone chain before the Clears); " +
		"Clear, Len, GetForward, removals of absent keys/values x 2^20+8 and 2^24+8 (thorough + 2^26+8, 2^28+8); every other cycle x 2^18+8 (thorough + 2^20+8, 2^22+8); " +
		"rapid: 0..4 initial pairs, 1..6 segments, cycle uniform, N from {0..9, 250..260, 65530..65545, 2^16 minus what the case has done so far (+-1)} with at most 140000 repetitions per case",
	Enum: func(shard, shards int, tier string, yield func(RCase) bool) {
		for i, c := range repeatEnum(tier) {
			if shards > 1 && i%shards != shard {
				continue
			}
			if !yield(c) {
				return
			}
		}
	},
	Gen: func(t *rapid.T) RCase {
		c := RCase{Left: rapid.IntRange(0, 4).Draw(t, "left")}
		ns := rapid.IntRange(1, 6).Draw(t, "nsegs")
		var total int64
		for i := 0; i < ns; i++ {
			p := rapid.IntRange(0, nRepeat-1).Draw(t, "p")
			var n int64
			switch rapid.IntRange(0, 5).Draw(t, "nclass") {
			case 0:
				n = int64(rapid.IntRange(0, 9).Draw(t, "n"))
			case 1:
				n = int64(rapid.IntRange(250, 260).Draw(t, "n"))
			case 2, 3:
				n = int64(rapid.IntRange(65530, 65545).Draw(t, "n"))
			default: // complete the case's count to 2^16 (+-1)
				n = 1<<16 - total%(1<<16) + int64(rapid.IntRange(-1, 1).Draw(t, "n"))
			}
			if total+n > 140000 {
				n = 140000 - total
			}
			if n < 0 {
				n = 0
			}
			total += n
			c.Segs = append(c.Segs, RSeg{P: p, N: n})
		}
		return c
	},
	Run: RunRepeat, Quick: 24, Thorough: 400,
	CaseCPU: 10 * time.Minute,
})

// C11.wrap32 (thorough only): 2^32+8 repetitions of the four cycles that cost a few nanoseconds per call.
var specWrap32 = pbt.Register(&pbt.Spec[RCase]{
	Property: "C11", Name: "C11.wrap32",
	Rule: repeatRule +
		"enumerated (4 cases, one per shard, 5..90 s each): 2 pairs left behind then Clear x (2^32+8) | 4 pairs then Len x (2^32+8) | 1 pair then GetForward x (2^32+8) | 3 pairs then {RemoveForward(absent key); RemoveReverse(absent value)} x (2^32+8): a 32-bit call counter / generation wraps exactly once",
	Enum: func(shard, shards int, tier string, yield func(RCase) bool) {
		cs := []RCase{
			{Left: 2, Segs: []RSeg{{P: rClear, N: 1<<32 + 8}}},
			{Left: 4, Segs: []RSeg{{P: rLen, N: 1<<32 + 8}}},
			{Left: 1, Segs: []RSeg{{P: rGetFwd, N: 1<<32 + 8}}},
			{Left: 3, Segs: []RSeg{{P: rRemAbsent, N: 1<<32 + 8}}},
		}
		for i, c := range cs {
			if shards > 1 && i%shards != shard {
				continue
			}
			if !yield(c) {
				return
			}
		}
	},
	Run: RunRepeat, Exhaustive: false,
	CaseCPU: 30 * time.Minute,
})

func TestC11Repeat(t *testing.T) { pbt.Check(t, specRepeat) }
func TestC11Wrap32(t *testing.T) { pbt.Check(t, specWrap32) }
