package c11

import (
	"fmt"
	"runtime"
	"sync"
	"sync/atomic"
	"testing"

	"gopkg.in/typ.v4/maps"
	"pgregory.net/rapid"
	"verifharness/internal/pbt"
)

// LCase: a Bimap is filled, cloned 1..3 times, then the original and every clone are used at the same time, each by
// ONE goroutine of its own, each against its own pair model ("Clone is independent of the original"). -race.
type LOp struct {
	K string `json:"k"` // add remf remr getf getr clear len range
	A int    `json:"a"`
	B int    `json:"b"`
}

type LCase struct {
	Base  [][2]int `json:"base"`
	Progs [][]LOp  `json:"progs"`
	Reps  int      `json:"reps"`
	Procs int      `json:"procs"`
}

type lmodel struct {
	f map[int]int
	r map[int]int
}

func (m *lmodel) add(k, v int) {
	if ov, ok := m.f[k]; ok {
		delete(m.r, ov)
	}
	if ok2, ok := m.r[v]; ok {
		delete(m.f, ok2)
	}
	m.f[k], m.r[v] = v, k
}

func RunLineage(c LCase) pbt.Outcome {
	if c.Procs > 0 {
		defer runtime.GOMAXPROCS(runtime.GOMAXPROCS(c.Procs))
	}
	for rep := 0; rep < c.Reps; rep++ {
		var orig maps.Bimap[int, int]
		base := &lmodel{f: map[int]int{}, r: map[int]int{}}
		for _, p := range c.Base {
			orig.Add(p[0], p[1])
			base.add(p[0], p[1])
		}
		bms := make([]*maps.Bimap[int, int], len(c.Progs))
		bms[0] = &orig
		for i := 1; i < len(bms); i++ {
			cl := orig.Clone()
			bms[i] = &cl
		}
		fails := make([]string, len(bms))
		var gate atomic.Int32
		var wg sync.WaitGroup
		for gi := range bms {
			gi := gi
			wg.Add(1)
			go func() {
				defer wg.Done()
				defer func() {
					if p := recover(); p != nil {
						fails[gi] = fmt.Sprintf("panic: %v", p)
					}
				}()
				b := bms[gi]
				m := &lmodel{f: map[int]int{}, r: map[int]int{}}
				for k, v := range base.f {
					m.f[k], m.r[v] = v, k
				}
				gate.Add(1)
				for int(gate.Load()) < len(bms) {
					runtime.Gosched()
				}
				for oi, op := range c.Progs[gi] {
					switch op.K {
					case "add":
						b.Add(op.A, op.B)
						m.add(op.A, op.B)
					case "remf":
						b.RemoveForward(op.A)
						if v, ok := m.f[op.A]; ok {
							delete(m.f, op.A)
							delete(m.r, v)
						}
					case "remr":
						b.RemoveReverse(op.B)
						if k, ok := m.r[op.B]; ok {
							delete(m.r, op.B)
							delete(m.f, k)
						}
					case "getf":
						v, ok := b.GetForward(op.A)
						if wv, wok := m.f[op.A]; ok != wok || (ok && v != wv) {
							fails[gi] = fmt.Sprintf("op %d: GetForward(%d) = (%d,%v), its own model (%d,%v)", oi, op.A, v, ok, wv, wok)
							return
						}
					case "getr":
						k, ok := b.GetReverse(op.B)
						if wk, wok := m.r[op.B]; ok != wok || (ok && k != wk) {
							fails[gi] = fmt.Sprintf("op %d: GetReverse(%d) = (%d,%v), its own model (%d,%v)", oi, op.B, k, ok, wk, wok)
							return
						}
					case "clear":
						b.Clear()
						m.f, m.r = map[int]int{}, map[int]int{}
					case "range":
						n := 0
						bad := ""
						b.Range(func(k, v int) bool {
							n++
							if wv, ok := m.f[k]; !ok || wv != v {
								bad = fmt.Sprintf("Range visits (%d,%d), its own model has (%d,%v) for that key", k, v, wv, ok)
							}
							return true
						})
						if bad == "" && n != len(m.f) {
							bad = fmt.Sprintf("Range visits %d pairs, its own model has %d", n, len(m.f))
						}
						if bad != "" {
							fails[gi] = fmt.Sprintf("op %d: %s", oi, bad)
							return
						}
					}
					if b.Len() != len(m.f) {
						fails[gi] = fmt.Sprintf("op %d %+v: Len = %d, its own model has %d pairs", oi, op, b.Len(), len(m.f))
						return
					}
				}
				for k, v := range m.f {
					if gv, ok := b.GetForward(k); !ok || gv != v {
						fails[gi] = fmt.Sprintf("at the end: GetForward(%d) = (%d,%v), its own model %d", k, gv, ok, v)
						return
					}
					if gk, ok := b.GetReverse(v); !ok || gk != k {
						fails[gi] = fmt.Sprintf("at the end: GetReverse(%d) = (%d,%v), its own model %d", v, gk, ok, k)
						return
					}
				}
			}()
		}
		wg.Wait()
		for gi, f := range fails {
			if f != "" {
				who := "the original"
				if gi > 0 {
					who = fmt.Sprintf("clone %d", gi)
				}
				return pbt.Fail("repetition %d: a Bimap of %d pairs and its %d clone(s), each used by ONE goroutine of its own at the same time: %s: %s", rep, len(base.f), len(bms)-1, who, f)
			}
		}
	}
	return pbt.Outcome{Evals: c.Reps, NonTrivial: len(c.Progs) >= 2 && len(c.Base) >= 2, Labels: []string{fmt.Sprintf("bimaps=%d", len(c.Progs))}}
}

var specLineage = pbt.Register(&pbt.Spec[LCase]{
	Property: "C11", Name: "C11.lineage",
	Rule: "E4 under -race: a Bimap of 0..40 pairs is cloned 1..3 times, then the original and every clone are used at the same time, each by one goroutine of its own (spin-barrier start, 20 repetitions): 5..50 calls " +
		"{Add, RemoveForward, RemoveReverse, GetForward, GetReverse, Clear, Range} each, results and Len against that object's own pair model, both directions re-read at the end; a DATA RACE report is a violation " +
		"(Clone is independent of the original); non-trivial = >=2 objects and >=2 base pairs",
	Gen: func(t *rapid.T) LCase {
		u := rapid.SampledFrom([]int{4, 12, 50}).Draw(t, "u")
		c := LCase{Reps: 20, Procs: rapid.SampledFrom([]int{2, 4, 16}).Draw(t, "procs")}
		nb := rapid.IntRange(0, 40).Draw(t, "nbase")
		for i := 0; i < nb; i++ {
			c.Base = append(c.Base, [2]int{rapid.IntRange(0, u).Draw(t, "k"), rapid.IntRange(0, u).Draw(t, "v")})
		}
		n := rapid.IntRange(2, 4).Draw(t, "objects")
		op := rapid.Custom(func(t *rapid.T) LOp {
			k := rapid.SampledFrom([]string{"add", "add", "add", "remf", "remr", "getf", "getr", "range", "clear"}).Draw(t, "k")
			if k == "clear" && rapid.IntRange(0, 3).Draw(t, "c") != 1 {
				k = "add"
			}
			return LOp{K: k, A: rapid.IntRange(0, u).Draw(t, "a"), B: rapid.IntRange(0, u).Draw(t, "b")}
		})
		for i := 0; i < n; i++ {
			c.Progs = append(c.Progs, rapid.SliceOfN(op, 5, 50).Draw(t, fmt.Sprintf("p%d", i)))
		}
		return c
	},
	Run: RunLineage, Quick: 150, Thorough: 4000, Crashy: true, Retries: 50,
})

func TestC11Lineage(t *testing.T) { pbt.Check(t, specLineage) }
