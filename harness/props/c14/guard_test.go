package c14

import (
	"fmt"
	"runtime/debug"
	"syscall"
	"testing"
	"unsafe"

	"pgregory.net/rapid"
	"verifharness/internal/pbt"
)

// C14.guard: the cases of C14.enum/C14.rand/C14.big/C14.types on arguments that END exactly at the end of readable memory, or
// START exactly at its beginning: the slice (with its spare capacity) and the unwanted/exclude list are placed in a mapping of their
// own whose neighbouring pages are inaccessible (PROT_NONE). A helper that reads one element beyond the end of its argument (or
// before its start) faults; with debug.SetPanicOnFault the fault is a panic that pbt reports, in another goroutine it kills the
// process with "unexpected fault address", which the driver reports for a Crashy unit. Only pointer-free element types.

// PCase wraps a case of the int units or of the typed unit.
type PCase struct {
	Kind  string `json:"kind"`  // "int": Int is run by runCase; otherwise Typed by the typed runner (uint8, float64, array, shout, wide128)
	Place int    `json:"place"` // 0: the arguments end at the last accessible byte; 1: they start at the first one
	Int   Case   `json:"int"`
	Typed TCase  `json:"typed"`
}

// guardMem hands out slices in mappings of their own, surrounded by inaccessible pages.
type guardMem struct {
	maps  [][]byte
	place int
	err   error
}

func (g *guardMem) bytes(size, align int) unsafe.Pointer {
	page := syscall.Getpagesize()
	body := (size + page - 1) / page * page
	if body == 0 {
		body = page
	}
	mem, err := syscall.Mmap(-1, 0, body+2*page, syscall.PROT_READ|syscall.PROT_WRITE, syscall.MAP_ANON|syscall.MAP_PRIVATE)
	if err != nil {
		g.err = err
		return nil
	}
	g.maps = append(g.maps, mem)
	if err := syscall.Mprotect(mem[:page], syscall.PROT_NONE); err != nil {
		g.err = err
		return nil
	}
	if err := syscall.Mprotect(mem[page+body:], syscall.PROT_NONE); err != nil {
		g.err = err
		return nil
	}
	if g.place == 1 {
		return unsafe.Pointer(&mem[page])
	}
	return unsafe.Pointer(&mem[page+body-size])
}

func (g *guardMem) release() {
	for _, m := range g.maps {
		syscall.Munmap(m)
	}
	g.maps = nil
}

// guardSlice: n elements of the pointer-free type E next to an inaccessible page.
func guardSlice[E any](g *guardMem, n int) []E {
	var e E
	size := int(unsafe.Sizeof(e))
	if n <= 0 || size == 0 {
		return make([]E, n)
	}
	p := g.bytes(n*size, int(unsafe.Alignof(e)))
	if p == nil {
		return make([]E, n)
	}
	return unsafe.Slice((*E)(p), n)
}

func guardTyped[E comparable](g *guardMem, c TCase, d dom[E]) pbt.Outcome {
	d.alloc = func(n int) []E { return guardSlice[E](g, n) }
	return typedCmp(c, d)
}

var guardTypes = []string{"uint8", "float64", "array", "shout", "wide128", "float64-nan"}

func RunGuard(c PCase) pbt.Outcome {
	defer debug.SetPanicOnFault(debug.SetPanicOnFault(true))
	g := &guardMem{place: c.Place % 2}
	defer g.release()
	var out pbt.Outcome
	switch c.Kind {
	case "int":
		out = runCase(c.Int, func(n int) myInts { return guardSlice[int](g, n) })
	default:
		t := c.Typed
		switch t.Type {
		case "uint8":
			out = guardTyped(g, t, domUint8())
		case "float64":
			out = guardTyped(g, t, domFloat())
		case "array":
			out = guardTyped(g, t, domArray())
		case "shout":
			out = guardTyped(g, t, domShout())
		case "wide128":
			out = guardTyped(g, t, domWide128())
		case "float64-nan":
			out = guardTyped(g, t, domFloatNaN())
		default:
			return pbt.Outcome{Skipped: true}
		}
	}
	if g.err != nil {
		return pbt.Outcome{Inconclusive: fmt.Sprintf("mmap/mprotect failed: %v", g.err)}
	}
	if len(g.maps) == 0 {
		out.NonTrivial = false
	} else if c.Place%2 == 1 {
		out.Labels = append(out.Labels, "arguments-start-at-the-first-accessible-byte")
	} else {
		out.Labels = append(out.Labels, "arguments-end-at-the-last-accessible-byte")
	}
	return out
}

func guardEnum(shard, shards int, tier string, yield func(PCase) bool) {
	k := 0
	emit := func(c PCase) bool {
		k++
		if k%shards != shard {
			return true
		}
		return yield(c)
	}
	// int: every slice of length 0..4 over two values (thorough: three values, length 0..5), every unwanted list, no spare capacity / one spare element
	vals, maxLen := 2, 3
	if tier == "thorough" {
		vals, maxLen = 3, 5
	}
	i := 0
	ok := enumGrid(vals, maxLen, 2, func(c Case) bool {
		i++
		c.Spare = i % 2 * (i / 2 % 3)
		c.Nil = false
		return emit(PCase{Kind: "int", Place: i / 3 % 2, Int: c})
	})
	if !ok {
		return
	}
	// int: long slices around the powers of two, and a page and more
	for _, d := range []int{15, 16, 17, 63, 64, 65, 255, 256, 257, 511, 512, 513, 1023, 1024, 1025, 2048, 4097} {
		for j, shape := range []string{"twice", "lag", "random"} {
			c := bigCase(bigSlice(shape, d), d, []int{d + 1, d/2 + 1, 3}[j], d+j, 4*(d+j))
			c.Spare, c.Procs = j%2, 0
			if !emit(PCase{Kind: "int", Place: (d + j) % 2, Int: c}) {
				return
			}
		}
	}
	// typed
	for _, ty := range guardTypes {
		n := typeSizes[ty]
		ok := enumSlices(3, 4, func(s []int) bool {
			for sub := 0; sub < 8; sub += 3 {
				set := []int{}
				for v := 0; v < 3; v++ {
					if sub&(1<<v) != 0 {
						set = append(set, v)
					}
				}
				i++
				c := TCase{Type: ty, S: append([]int{}, s...), Set: set, M: 1 + i%2, J: len(s) - i%2, Spare: i / 2 % 2}
				if !emit(PCase{Kind: "typed", Place: i / 4 % 2, Typed: c}) {
					return false
				}
			}
			return true
		})
		if !ok {
			return
		}
		for _, l := range []int{31, 32, 33, 64, 4096 / 8, 4096/8 + 1} { // long slices cycling through the whole domain
			s := make([]int, l)
			for j := range s {
				s[j] = (j*j + j/3) % n
			}
			i++
			if !emit(PCase{Kind: "typed", Place: i % 2, Typed: TCase{Type: ty, S: s, Set: []int{s[0], s[l-1]}, M: 2, J: l - i%2, Spare: i / 2 % 2}}) {
				return
			}
		}
	}
}

var specGuard = pbt.Register(&pbt.Spec[PCase]{
	Property: "C14", Name: "C14.guard",
	Rule: "the cases (and oracles) of C14.enum, C14.big, C14.rand and C14.types with both arguments (the slice with its spare capacity of 0..2 elements, the unwanted/exclude list) placed in anonymous mappings of their own " +
		"between two PROT_NONE pages: either ending exactly at the last accessible byte or starting at the first one, so a helper that reads an element beyond (before) its argument faults (debug.SetPanicOnFault turns the fault " +
		"into a panic that is reported; a fault in another goroutine kills the process and the driver reports the running case). Element types: int, uint8, float64 (also with NaNs), [2]float32, a named int, [16]int64 (pointer-free types only). " +
		"Enumerated: int slices of length 0..3 over two values (thorough: 0..5 over three) x every unwanted list x m in 1..2 x thresholds; int slices with d distinct values for d around every power of two from 16 to 1024, 2048 and 4097 " +
		"(more than a page) in three arrangements; for every other type all index sequences of length 0..4 over three values x three lists, and slices of 31, 32, 33, 64, 512, 513 elements; " +
		"rapid: a case of C14.rand, C14.big or C14.types (pointer-free type) with spare 0..1, either placement. " + sliceRule,
	Enum: guardEnum,
	Gen: func(t *rapid.T) PCase {
		c := PCase{Place: rapid.IntRange(0, 1).Draw(t, "place")}
		switch rapid.IntRange(0, 3).Draw(t, "kind") {
		case 0:
			c.Kind, c.Int = "int", genCase(t)
			c.Int.Nil = false
		case 1:
			c.Kind, c.Int = "int", genBig(t)
		default:
			c.Kind = "typed"
			ty := rapid.SampledFrom(guardTypes).Draw(t, "type")
			k := typeSizes[ty]
			s := pbt.OpsOf(t, rapid.IntRange(0, k-1), []int{1, 3, 8, 40}, "s")
			set := pbt.OpsOf(t, rapid.IntRange(0, k-1), []int{0, 1, 9}, "set")
			if s == nil {
				s = []int{}
			}
			if set == nil {
				set = []int{}
			}
			c.Typed = TCase{Type: ty, S: s, Set: set, M: rapid.IntRange(1, 4).Draw(t, "m"), J: rapid.IntRange(0, len(s)+1).Draw(t, "j")}
		}
		sp := rapid.IntRange(0, 1).Draw(t, "spare")
		c.Int.Spare, c.Typed.Spare, c.Int.Procs, c.Int.Flip = sp, sp, 0, false
		return c
	},
	Run: RunGuard, Quick: 500, Thorough: 20000, Crashy: true, Replicas: 4, ReplicaEvery: 16,
})

func TestC14Guard(t *testing.T) { pbt.Check(t, specGuard) }
