package c14

import (
	"errors"
	"fmt"
	"math"
	"sort"
	"strconv"
	"strings"
	"testing"
	"unsafe"

	"gopkg.in/typ.v4/maps"
	"gopkg.in/typ.v4/slices"
	"pgregory.net/rapid"
	"verifharness/internal/pbt"
)

// C14.types: the helpers are generic; this unit runs them on element/key/value types with special
// characteristics: values that are == but not bit-identical (+0/-0, also inside structs, arrays and
// interfaces), pointers to equal values, interfaces holding different dynamic types, zero-size elements,
// single-byte elements, a type whose String method lies, and - for the helpers that only need `any` -
// elements that cannot be compared at all (slices, interfaces holding slices).
//
// A case lists indices into the type's small value domain; the model works on the indices and on the
// domain's equivalence classes (class[i]==class[j] iff vals[i]==vals[j]); results are compared through a
// bit-exact identity string, so "first occurrence" and "members in original order" are checked exactly.

type TCase struct {
	Type  string `json:"type"`
	S     []int  `json:"s"`   // indices into the domain (reduced modulo its size)
	Set   []int  `json:"set"` // exclude/unwanted list, indices too
	M     int    `json:"m"`   // keyer class%M, predicate class%M==0
	J     int    `json:"j"`   // MapErr fails from its J-th call on
	Spare int    `json:"spare"`
	Nil   bool   `json:"nil"` // nil slice / nil map when empty
}

type dom[E any] struct {
	vals     []E
	class    []int // class[i]==class[j] iff vals[i]==vals[j] - except for the irreflexive values, which have a class of their own each (used by the harness's callbacks only)
	id       func(E) string
	poison   E // content of the spare capacity
	scribble E // written over results, SafeGetOr fallback
	// irrefl[i]: vals[i] != vals[i] (a NaN, or a struct/array/interface holding one): under == it is equal to nothing, as an
	// element, as a probe, as an unwanted/excluded value and as a map key (every insertion makes a new entry that only range reaches).
	irrefl []bool
	// once[i]: an interface value whose dynamic type cannot be compared (a slice): == against values of OTHER dynamic types is
	// false, == against itself panics (by the language). Such a value is used at most once per case (slice and list together) and never
	// probed for while it is in the slice, so every == of the reference definition is defined; the helpers that hash their
	// elements on the unchanged tree (Except, ExceptSet, GroupBy/CountBy keyed by the element, maps keyed by it) are left out while it is present.
	once []bool
	// alloc (optional) provides the memory of the slice (with its spare capacity); C14.guard places it next to inaccessible pages
	// (pointer-free element types only)
	alloc func(n int) []E
}

func (d dom[E]) isIrrefl(i int) bool { return d.irrefl != nil && d.irrefl[i] }
func (d dom[E]) isOnce(i int) bool   { return d.once != nil && d.once[i] }

type named[E any] []E
type namedMap[K comparable, V any] map[K]V

type rec struct {
	A int
	B string
	F float32
}

// shout is a type with a String method that says the same for every value.
type shout int

func (shout) String() string { return "shout" }
func (shout) Error() string  { return "shout" }

var negZero = math.Copysign(0, -1)

func f64id(f float64) string { return "f64:" + strconv.FormatUint(math.Float64bits(f), 16) }

func anyID(v any) string {
	switch x := v.(type) {
	case nil:
		return "nil"
	case float64:
		return f64id(x)
	case []int:
		return sliceID(x)
	case int:
		return "int:" + strconv.Itoa(x)
	case int64:
		return "int64:" + strconv.FormatInt(x, 10)
	case string:
		return "string:" + x
	case struct{}:
		return "struct{}"
	case *int:
		return "*int:" + ptrID(unsafe.Pointer(x))
	default:
		return fmt.Sprintf("%T:%v", v, v)
	}
}

func ptrID(p unsafe.Pointer) string { return "0x" + strconv.FormatUint(uint64(uintptr(p)), 16) }

func sliceID(x []int) string {
	b := []byte("[]int[")
	for _, v := range x {
		b = strconv.AppendInt(b, int64(v), 10)
		b = append(b, ' ')
	}
	if x == nil {
		b = append(b, "](nil)"...)
	} else {
		b = append(b, "]@"...)
		b = append(b, ptrID(unsafe.Pointer(unsafe.SliceData(x)))...)
		b = append(b, "/cap"...)
		b = strconv.AppendInt(b, int64(cap(x)), 10)
	}
	return string(b)
}

// typeNames in a fixed order, with the size of each domain.
var typeNames = []string{"string", "float64", "struct", "array", "pointer", "any", "empty", "uint8", "shout", "slice", "any-noncomparable",
	"float64-nan", "struct-nan", "any-nan", "any-one-unhashable", "cell-one-unhashable", "wide", "wide128"}
var typeSizes = map[string]int{"string": 7, "float64": 8, "struct": 6, "array": 6, "pointer": 6, "any": 11, "empty": 1, "uint8": 7, "shout": 5, "slice": 6, "any-noncomparable": 6,
	"float64-nan": 7, "struct-nan": 6, "any-nan": 11, "any-one-unhashable": 19, "cell-one-unhashable": 15, "wide": 6, "wide128": 5}

func domString() dom[string] {
	return dom[string]{
		vals:  []string{"a", string([]byte{'a'}), "", "ab", "a\x00", "\u00e9", "e\u0301"}, // the last two look alike but differ
		class: []int{0, 0, 1, 2, 3, 4, 5},
		id:    func(s string) string { return strconv.Quote(s) }, poison: "POISON", scribble: "SCRIBBLE",
	}
}

func domFloat() dom[float64] {
	return dom[float64]{
		vals:  []float64{0, negZero, 1, -1, math.Inf(1), math.SmallestNonzeroFloat64, math.MaxFloat64, -math.SmallestNonzeroFloat64},
		class: []int{0, 0, 1, 2, 3, 4, 5, 6},
		id:    f64id, poison: -99.5, scribble: 7777.25,
	}
}

func domStruct() dom[rec] {
	nz := float32(math.Copysign(0, -1))
	return dom[rec]{
		vals:  []rec{{0, "", 0}, {0, "", nz}, {1, "", 0}, {0, "x", 0}, {1, "x", 1}, {-1, "x", 1}},
		class: []int{0, 0, 1, 2, 3, 4},
		id: func(r rec) string {
			return strconv.Itoa(r.A) + "/" + r.B + "/" + strconv.FormatUint(uint64(math.Float32bits(r.F)), 16)
		}, poison: rec{-99, "poison", 0}, scribble: rec{7777, "scribble", 1},
	}
}

func domArray() dom[[2]float32] {
	nz := float32(math.Copysign(0, -1))
	return dom[[2]float32]{
		vals:  [][2]float32{{0, 1}, {nz, 1}, {1, 0}, {1, nz}, {1, 1}, {0, 0}},
		class: []int{0, 0, 1, 1, 2, 3},
		id: func(a [2]float32) string {
			return strconv.FormatUint(uint64(math.Float32bits(a[0])), 16) + "/" + strconv.FormatUint(uint64(math.Float32bits(a[1])), 16)
		}, poison: [2]float32{-99, -99}, scribble: [2]float32{7777, 7777},
	}
}

func domPointer() dom[*int] {
	mk := func(v int) *int { return &v }
	return dom[*int]{
		vals:  []*int{mk(7), mk(7), nil, mk(0), mk(0), mk(8)}, // pointers to equal values are different values
		class: []int{0, 1, 2, 3, 4, 5},
		id: func(p *int) string {
			if p == nil {
				return "nil"
			}
			return ptrID(unsafe.Pointer(p)) + "->" + strconv.Itoa(*p)
		}, poison: mk(-99), scribble: mk(7777),
	}
}

func domAny() dom[any] {
	x := 5
	return dom[any]{
		vals:  []any{0.0, negZero, 1, int64(1), "1", 1.0, nil, struct{}{}, &x, [2]int{1, 2}, shout(1)},
		class: []int{0, 0, 1, 2, 3, 4, 5, 6, 7, 8, 9},
		id:    anyID, poison: "POISON", scribble: "SCRIBBLE",
	}
}

func domEmpty() dom[struct{}] {
	return dom[struct{}]{vals: []struct{}{{}}, class: []int{0}, id: func(struct{}) string { return "{}" }}
}

func domUint8() dom[uint8] {
	return dom[uint8]{
		vals: []uint8{0, 255, 1, 127, 128, 254, 2}, class: []int{0, 1, 2, 3, 4, 5, 6},
		id: func(b uint8) string { return strconv.Itoa(int(b)) }, poison: 99, scribble: 77,
	}
}

func domShout() dom[shout] {
	return dom[shout]{
		vals: []shout{0, 1, -1, math.MaxInt, math.MinInt}, class: []int{0, 1, 2, 3, 4},
		id: func(s shout) string { return strconv.Itoa(int(s)) }, poison: -99, scribble: 7777,
	}
}

// domSlice: elements that cannot be compared with ==; the harness's equality callback compares contents
// (nil and empty are equal for it).
func domSlice() dom[[]int] {
	return dom[[]int]{
		vals:  [][]int{{1}, {1}, nil, {}, {1, 2}, {2, 1}},
		class: []int{0, 0, 1, 1, 2, 3},
		id:    sliceID, poison: []int{-99}, scribble: []int{7777},
	}
}

func domAnyNC() dom[any] {
	return dom[any]{
		vals:  []any{[]int{1}, []int{1}, nil, 3, "x", map[string]int{"k": 1}},
		class: []int{0, 0, 1, 2, 3, 4},
		id: func(v any) string {
			if m, ok := v.(map[string]int); ok {
				return fmt.Sprintf("map:%p:%v", m, m)
			}
			return anyID(v)
		}, poison: "POISON", scribble: "SCRIBBLE",
	}
}

// ---- third round: irreflexive values (NaN), interface values that cannot be hashed, wide elements

func nanF64(payload uint64) float64 { return math.Float64frombits(0x7ff8000000000000 | payload) }
func nanF32(payload uint32) float32 { return math.Float32frombits(0x7fc00000 | payload) }

// domFloatNaN: three NaNs with different bits among ordinary values. The first three values (the ones the enumerator uses) are 1 and two NaNs.
func domFloatNaN() dom[float64] {
	return dom[float64]{
		vals:   []float64{1, nanF64(1), nanF64(2), 0, negZero, math.Float64frombits(0xfff8000000000001), math.Inf(1)},
		class:  []int{0, 1, 2, 3, 3, 4, 5},
		irrefl: []bool{false, true, true, false, false, true, false},
		id:     f64id, poison: -99.5, scribble: 7777.25,
	}
}

// domStructNaN: structs that are irreflexive through a NaN field.
func domStructNaN() dom[rec] {
	nz := float32(math.Copysign(0, -1))
	d := domStruct()
	return dom[rec]{
		vals:   []rec{{0, "", 0}, {1, "", nanF32(1)}, {1, "", nanF32(2)}, {0, "", nz}, {0, "x", nanF32(1)}, {2, "x", 1}},
		class:  []int{0, 1, 2, 0, 3, 4},
		irrefl: []bool{false, true, true, false, true, false},
		id:     d.id, poison: d.poison, scribble: d.scribble,
	}
}

// domAnyNaN: interface values holding NaNs (directly, in an array, in a struct) among ordinary ones.
func domAnyNaN() dom[any] {
	return dom[any]{
		vals:   []any{0.0, nanF64(1), nanF64(2), negZero, 1, "1", nil, nanF32(1), [2]float64{nanF64(1), 1}, rec{1, "", nanF32(1)}, 2.5},
		class:  []int{0, 1, 2, 0, 3, 4, 5, 6, 7, 8, 9},
		irrefl: []bool{false, true, true, false, false, false, false, true, true, true, false},
		id:     anyID, poison: "POISON", scribble: "SCRIBBLE",
	}
}

// domAnyOnce: interface values of many hashable dynamic types and one that holds a slice (value number 1).
func domAnyOnce() dom[any] {
	d := dom[any]{
		vals: []any{0, []int{9}, "keep", 1, 2.5, nil, 2, 3, 4, 5, 6, 7, 8, "x", int64(1), struct{}{}, [2]int{1, 2}, shout(1), uint8(1)},
		id:   anyID, poison: "POISON", scribble: "SCRIBBLE",
	}
	d.once = make([]bool, len(d.vals))
	d.once[1] = true
	for i := range d.vals {
		d.class = append(d.class, i)
	}
	return d
}

// cell is a struct with an interface field: comparable by the language, == panics only when both fields hold the same uncomparable dynamic type.
type cell struct{ V any }

func domCellOnce() dom[cell] {
	d := dom[cell]{
		vals: []cell{{0}, {[]int{9}}, {"keep"}, {0.0}, {negZero}, {1}, {nil}, {2}, {3}, {4}, {5}, {6}, {7}, {8}, {"x"}},
		id:   func(c cell) string { return "cell{" + anyID(c.V) + "}" }, poison: cell{"POISON"}, scribble: cell{"SCRIBBLE"},
	}
	d.once = make([]bool, len(d.vals))
	d.once[1] = true
	d.class = []int{0, 1, 2, 3, 3, 4, 5, 6, 7, 8, 9, 10, 11, 12, 13}
	return d
}

// wide is an element of 152 bytes (Go maps store keys and values of more than 128 bytes indirectly); wide128 is exactly 128 bytes.
type wide struct {
	Pad [15]int64
	F   float64
	K   int
	S   string
}
type wide128 [16]int64

// padID names an array of int64 by its non-zero positions.
func padID(b []byte, pad []int64) []byte {
	b = append(b, '[')
	for i, v := range pad {
		if v != 0 {
			b = strconv.AppendInt(append(b, ' '), int64(i), 10)
			b = strconv.AppendInt(append(b, ':'), v, 10)
		}
	}
	return append(b, ']')
}

func domWide() dom[wide] {
	var p14, p0 [15]int64
	p14[14], p0[0] = 1, -1
	return dom[wide]{
		vals:  []wide{{K: 0}, {K: 0, F: negZero}, {K: 1}, {Pad: p14}, {S: "x"}, {Pad: p0, S: "x"}},
		class: []int{0, 0, 1, 2, 3, 4},
		id: func(w wide) string {
			b := padID(make([]byte, 0, 48), w.Pad[:])
			b = strconv.AppendInt(append(b, " K="...), int64(w.K), 10)
			b = strconv.AppendQuote(append(b, " S="...), w.S)
			b = strconv.AppendUint(append(b, " F="...), math.Float64bits(w.F), 16)
			return string(b)
		}, poison: wide{K: -99, S: "poison"}, scribble: wide{K: 7777, S: "scribble"},
	}
}

func domWide128() dom[wide128] {
	return dom[wide128]{
		vals:  []wide128{{}, {0: 1}, {15: 1}, {8: -1}, {0: 1, 15: 1}},
		class: []int{0, 1, 2, 3, 4},
		id:    func(w wide128) string { return string(padID(make([]byte, 0, 32), w[:])) }, poison: wide128{3: -99}, scribble: wide128{4: 7777},
	}
}

const typedRule = "case = (element type, list of indices into that type's value domain, exclude/unwanted list, modulus m, MapErr failing call j, spare capacity); " +
	"types: string, float64 (with +0/-0), struct{int;string;float32} and [2]float32 (with -0 fields), *int (several pointers to equal values, nil), " +
	"any (0.0, -0.0, int 1, int64 1, \"1\", 1.0, nil, struct{}{}, a pointer, an array, a named int with methods), struct{} (zero size), uint8, a named int whose String/Error methods " +
	"return a constant, a struct of 152 bytes and an array of exactly 128 bytes; float64, the struct and any with NaNs of different bits (irreflexive under ==: equal to nothing as element, probe, " +
	"unwanted/excluded value and map key, where every insertion is an entry of its own that only range reaches); any and struct{any} with 19/15 hashable values of many dynamic types and ONE value " +
	"holding a slice (used at most once per case and not probed for while in the slice, so that every == of the definition is defined); " +
	"and - only for the helpers with an `any` constraint - []int (nil, empty, equal contents in different arrays) and any holding slices/maps. " +
	"The model works on indices and ==-classes; results are compared by a bit-exact identity (float bits, pointer, backing array), so first occurrences and member order are exact; " +
	"group keys and map keys are compared with ==. Helpers: Fold, FoldReverse, Map, MapErr, Filter, Any, All, IndexFunc, Trim*Func, ContainsFunc, DistinctFunc, GroupBy/CountBy (int key), " +
	"TryGet, SafeGet, SafeGetOr, Last, maps.Clone/Clear/Keys/Values/HasKey with the type as map value; for comparable types also Index, Contains, Distinct, Except, ExceptSet, " +
	"Trim/TrimLeft/TrimRight (also with the slice itself as the unwanted list), GroupBy/CountBy with the element as key, and maps.Clone/Clear/Keys/Values/HasKey/KeyOf/ContainsValue with the type as map key " +
	"(compared through sorted iteration, so entries with NaN keys count) and as map value. GroupBy/CountBy keyed by a NaN (a group of its own each time) and maps.Clear of a map with NaN keys are included (both were defects of the pinned tree, fixed). " +
	"Left out (label left-out:*): Except/ExceptSet while a value that cannot be hashed is in the slice or the list (they hash by design; the definition by == would not panic there). " +
	"Inputs (incl. spare capacity) must be unchanged by identity after every call; every returned slice/map is overwritten (up to capacity) and the input compared again (the groups of a GroupBy result are first grown by appends, one after the other, and re-read); Clone is never nil; " +
	"non-trivial = at least 3 elements and two ==-equal elements"

type tstate[E any] struct {
	d    dom[E]
	c    TCase
	n, m int
	idx  []int // the case's indices, reduced
	cl   []int // their classes (as seen by the harness's callbacks: an irreflexive value has a class of its own)
	eqc  []int // their classes under ==: the class, or - for an irreflexive value - a number that nothing else has (-(position+1))
	set  []int // reduced exclude indices
	// onceInS: the slice holds the value that must not be compared with itself; onceUsed: the slice or the list holds it;
	// nanInS: the slice holds an irreflexive value
	onceInS, onceUsed, nanInS bool
	back                      named[E]
	s                         named[E]
	snap                      []string
	idOf                      map[string]int
	out                       pbt.Outcome
	zeroE                     string
}

func newState[E any](c TCase, d dom[E]) *tstate[E] {
	t := &tstate[E]{d: d, c: c, idOf: map[string]int{}}
	k := len(d.vals)
	for i := len(d.vals) - 1; i >= 0; i-- { // the lowest index wins for values with identical identity
		t.idOf[d.id(d.vals[i])] = i
	}
	// a once-value is kept at its first use (slice first, then list); later uses become value number 0
	take := func(x int) int {
		x = ((x % k) + k) % k
		if d.isOnce(x) {
			if t.onceUsed {
				return 0
			}
			t.onceUsed = true
		}
		return x
	}
	for _, x := range c.S {
		t.idx = append(t.idx, take(x))
	}
	t.onceInS = t.onceUsed
	for _, x := range c.Set {
		t.set = append(t.set, take(x))
	}
	t.n = len(t.idx)
	for pos, x := range t.idx {
		if d.isIrrefl(x) {
			t.nanInS = true
			t.eqc = append(t.eqc, -(pos + 1))
		} else {
			t.eqc = append(t.eqc, d.class[x])
		}
	}
	t.m = c.M
	if t.m < 1 {
		t.m = 1
	}
	spare := c.Spare
	if spare < 0 {
		spare = 0
	}
	if t.n > 0 || !c.Nil {
		if d.alloc != nil && t.n+spare > 0 {
			t.back = d.alloc(t.n + spare)
		} else {
			t.back = make(named[E], t.n+spare)
		}
		for i := range t.back {
			t.back[i] = d.poison
		}
		for i, x := range t.idx {
			t.back[i] = d.vals[x]
			t.cl = append(t.cl, d.class[x])
		}
		t.s = t.back[:t.n:len(t.back)]
	}
	t.snap = t.ids(t.back)
	var zero E
	t.zeroE = d.id(zero)
	return t
}

func (t *tstate[E]) domIDs() []string { return t.ids(t.d.vals) }

// describe names the case's slice (only evaluated when something is wrong).
func (t *tstate[E]) describe() string {
	c := t.c
	desc := fmt.Sprintf("%s s=%v (= domain values number %v; domain: %v) spare=%d", c.Type, t.snap[:t.n], t.idx, t.domIDs(), len(t.back)-t.n)
	if len(desc) > 1500 {
		desc = fmt.Sprintf("%s s=%v (= domain values number %v, see the type's domain in types_test.go) spare=%d", c.Type, t.snap[:t.n], t.idx, len(t.back)-t.n)
	}
	return desc
}

func (t *tstate[E]) ids(es []E) []string {
	r := make([]string, len(es))
	for i, e := range es {
		r[i] = t.d.id(e)
	}
	return r
}

func (t *tstate[E]) idsAt(ix []int) []string {
	r := make([]string, len(ix))
	for i, x := range ix {
		r[i] = t.d.id(t.d.vals[x])
	}
	return r
}

// deq is the class of domain value i under ==: its class, or - irreflexive - a number that nothing has.
func (t *tstate[E]) deq(i int) int {
	if t.d.isIrrefl(i) {
		return -1000000 - i
	}
	return t.d.class[i]
}

// probeOK: domain value i may be searched for in the slice with == (it is not the once-value while the slice holds it).
func (t *tstate[E]) probeOK(i int) bool { return !(t.d.isOnce(i) && t.onceInS) }

// cls is the class of a value handed to a callback (-1: not a value of the domain).
func (t *tstate[E]) cls(e E) int {
	if i, ok := t.idOf[t.d.id(e)]; ok {
		return t.d.class[i]
	}
	return -1
}

// lazy is a string that is only computed when it is printed.
type lazy func() string

func (l lazy) String() string { return l() }

func eqStrs(a, b []string) bool {
	if len(a) != len(b) {
		return false
	}
	for i := range a {
		if a[i] != b[i] {
			return false
		}
	}
	return true
}

func (t *tstate[E]) intact(op string) string {
	for i := range t.back {
		if id := t.d.id(t.back[i]); id != t.snap[i] {
			return fmt.Sprintf("%s modified its input (%s): position %d of the backing array is now %s, was %s", op, t.describe(), i, id, t.snap[i])
		}
	}
	return ""
}

// checkNew: got has exactly the identities of the domain values at wantIdx, the input is intact, and
// overwriting got up to its capacity leaves the input intact.
func (t *tstate[E]) checkNew(op string, got []E, wantIdx []int) string {
	t.out.Evals++
	if g, w := t.ids(got), t.idsAt(wantIdx); !eqStrs(g, w) {
		return fmt.Sprintf("%s (%s) = %v, want %v", op, t.describe(), g, w)
	}
	if m := t.intact(op); m != "" {
		return m
	}
	got = got[:cap(got)]
	for i := range got {
		got[i] = t.d.scribble
	}
	if m := t.intact(op); m != "" {
		return "after overwriting the result of " + op + ": result shares memory with the input: " + m
	}
	return ""
}

func (t *tstate[E]) checkSub(op string, got []E, lo, hi int) string {
	t.out.Evals++
	if g, w := t.ids(got), t.snap[lo:hi]; !eqStrs(g, w) {
		return fmt.Sprintf("%s (%s) = %v, want s[%d:%d] = %v", op, t.describe(), g, lo, hi, w)
	}
	if m := t.intact(op); m != "" {
		return m
	}
	if len(got) > 0 && unsafe.Sizeof(got[0]) > 0 && &got[0] != &t.s[lo] {
		return fmt.Sprintf("%s (%s): result is not a sub-slice of its argument (different memory)", op, t.describe())
	}
	return ""
}

func (t *tstate[E]) checkVal(op string, ok bool, got, want any) string {
	t.out.Evals++
	if !ok {
		return fmt.Sprintf("%s (%s) = %v, want %v", op, t.describe(), got, want)
	}
	return t.intact(op)
}

// trimBounds: lo/hi after trimming both ends, lo2 after trimming the left end only, with `unwanted` on positions.
func (t *tstate[E]) trimBounds(unwanted func(pos int) bool) (lo, hi, lo2 int) {
	hi = t.n
	for hi > 0 && unwanted(hi-1) {
		hi--
	}
	for lo < hi && unwanted(lo) {
		lo++
	}
	for lo2 < t.n && unwanted(lo2) {
		lo2++
	}
	return
}

// runAny runs the helpers that accept any element type.
func runAny[E any](t *tstate[E]) string {
	d, n, m, s := t.d, t.n, t.m, t.s
	pred := func(e E) bool { return t.cls(e)%m == 0 }
	predAt := func(pos int) bool { return t.cl[pos]%m == 0 }
	eq := func(a, b E) bool { return t.cls(a) == t.cls(b) }
	pname := fmt.Sprintf("class%%%d==0", m)

	// Fold / FoldReverse
	acc := func(st string, e E) string { return st + d.id(e) + ";" }
	want, wantR := "<", "<"
	for i := 0; i < n; i++ {
		want += t.snap[i] + ";"
		wantR += t.snap[n-1-i] + ";"
	}
	if got := slices.Fold(s, "<", acc); true {
		if msg := t.checkVal("Fold(s, \"<\", st+identity(v))", got == want, got, want); msg != "" {
			return msg
		}
	}
	if got := slices.FoldReverse(s, "<", acc); true {
		if msg := t.checkVal("FoldReverse(s, \"<\", st+identity(v))", got == wantR, got, wantR); msg != "" {
			return msg
		}
	}
	// Fold with the element type as state: keeps the last element seen
	if n > 0 {
		got := slices.Fold(s, d.scribble, func(_ E, e E) E { return e })
		if msg := t.checkVal("Fold(s, x, keep the element)", d.id(got) == t.snap[n-1], d.id(got), t.snap[n-1]); msg != "" {
			return msg
		}
		got = slices.FoldReverse(s, d.scribble, func(_ E, e E) E { return e })
		if msg := t.checkVal("FoldReverse(s, x, keep the element)", d.id(got) == t.snap[0], d.id(got), t.snap[0]); msg != "" {
			return msg
		}
	}

	// Map to the identity string and to the element itself
	{
		got := slices.Map(s, d.id)
		if msg := t.checkVal("Map(s, identity string)", eqStrs(got, t.snap[:n]), got, t.snap[:n]); msg != "" {
			return msg
		}
		gotE := slices.Map(s, func(e E) E { return e })
		if msg := t.checkNew("Map(s, v->v)", gotE, t.idx); msg != "" {
			return msg
		}
	}
	// MapErr
	{
		calls := 0
		errs := make([]error, n+1)
		for i := range errs {
			errs[i] = &callErr{i}
		}
		got, err := slices.MapErr(s, func(e E) (E, error) {
			k := calls
			calls++
			if t.c.J >= 0 && k >= t.c.J {
				if k < len(errs) {
					return d.scribble, errs[k]
				}
				return d.scribble, errors.New("conversion called more often than the slice has elements")
			}
			return e, nil
		})
		op := fmt.Sprintf("MapErr(s, v->v failing from call %d on)", t.c.J)
		if t.c.J >= 0 && t.c.J < n {
			t.out.Evals++
			if err != errs[t.c.J] || len(got) != 0 || calls != t.c.J+1 {
				return fmt.Sprintf("%s (%s): returned (%v, %v) after %d calls, want no result, the error of call %d and %d calls", op, t.describe(), t.ids(got), err, calls, t.c.J, t.c.J+1)
			}
			if msg := t.intact(op); msg != "" {
				return msg
			}
		} else {
			if err != nil || calls != n {
				return fmt.Sprintf("%s (%s): returned error %v after %d calls, want none after %d calls", op, t.describe(), err, calls, n)
			}
			if msg := t.checkNew(op, got, t.idx); msg != "" {
				return msg
			}
		}
	}
	// Filter, Any, All, IndexFunc, Trim*Func
	{
		var wantIdx []int
		wAny, wAll, wFirst := false, true, -1
		for pos := 0; pos < n; pos++ {
			if predAt(pos) {
				wantIdx = append(wantIdx, t.idx[pos])
				wAny = true
				if wFirst < 0 {
					wFirst = pos
				}
			} else {
				wAll = false
			}
		}
		var got named[E] = slices.Filter(s, pred)
		if msg := t.checkNew("Filter(s, "+pname+")", got, wantIdx); msg != "" {
			return msg
		}
		if g := slices.Any(s, pred); g != wAny {
			return t.checkVal("Any(s, "+pname+")", false, g, wAny)
		}
		if g := slices.All(s, pred); g != wAll {
			return t.checkVal("All(s, "+pname+")", false, g, wAll)
		}
		if g := slices.IndexFunc(s, pred); g != wFirst {
			return t.checkVal("IndexFunc(s, "+pname+")", false, g, wFirst)
		}
		t.out.Evals += 3
		lo, hi, lo2 := t.trimBounds(predAt)
		if msg := t.checkSub("TrimFunc(s, unwanted: "+pname+")", slices.TrimFunc(s, pred), lo, hi); msg != "" {
			return msg
		}
		if msg := t.checkSub("TrimLeftFunc(s, unwanted: "+pname+")", slices.TrimLeftFunc(s, pred), lo2, n); msg != "" {
			return msg
		}
		if msg := t.checkSub("TrimRightFunc(s, unwanted: "+pname+")", slices.TrimRightFunc(s, pred), 0, hi); msg != "" {
			return msg
		}
	}
	// ContainsFunc for every domain value, DistinctFunc
	{
		for i, v := range d.vals {
			want := false
			for _, c := range t.cl {
				if c == d.class[i] {
					want = true
				}
			}
			if g := slices.ContainsFunc(s, v, eq); g != want {
				return t.checkVal(fmt.Sprintf("ContainsFunc(s, %s, same class)", d.id(v)), false, g, want)
			}
			t.out.Evals++
		}
		var wantIdx, seen []int
		for pos := 0; pos < n; pos++ {
			if !has(seen, t.cl[pos]) {
				seen = append(seen, t.cl[pos])
				wantIdx = append(wantIdx, t.idx[pos])
			}
		}
		var got named[E] = slices.DistinctFunc(s, eq)
		if msg := t.checkNew("DistinctFunc(s, same class)", got, wantIdx); msg != "" {
			return msg
		}
	}
	// GroupBy / CountBy with the key class%m
	{
		var keys []int
		members := map[int][]int{}
		for pos := 0; pos < n; pos++ {
			k := t.cl[pos] % m
			if !has(keys, k) {
				keys = append(keys, k)
			}
			members[k] = append(members[k], t.idx[pos])
		}
		op := fmt.Sprintf("GroupBy(s, class%%%d)", m)
		groups := slices.GroupBy(s, func(e E) int { return t.cls(e) % m })
		t.out.Evals++
		if len(groups) != len(keys) {
			return fmt.Sprintf("%s (%s): %d groups, want %d (keys %v)", op, t.describe(), len(groups), len(keys), keys)
		}
		for i, g := range groups {
			if g.Key != keys[i] || !eqStrs(t.ids(g.Values), t.idsAt(members[keys[i]])) {
				return fmt.Sprintf("%s (%s): group %d is key %v members %v, want key %v members %v", op, t.describe(), i, g.Key, t.ids(g.Values), keys[i], t.idsAt(members[keys[i]]))
			}
		}
		if msg := t.intact(op); msg != "" {
			return msg
		}
		if msg := growGroups(op, t.describe(), groups, d.scribble, func(a, b E) bool { return d.id(a) == d.id(b) }); msg != "" {
			return msg
		}
		for _, g := range groups {
			vs := g.Values[:cap(g.Values)]
			for i := range vs {
				vs[i] = d.scribble
			}
		}
		if msg := t.intact(op); msg != "" {
			return "after overwriting the groups returned by " + op + ": result shares memory with the input: " + msg
		}
		op = fmt.Sprintf("CountBy(s, class%%%d)", m)
		counts := slices.CountBy(s, func(e E) int { return t.cls(e) % m })
		t.out.Evals++
		if len(counts) != len(keys) {
			return fmt.Sprintf("%s (%s) = %v, want keys %v", op, t.describe(), counts, keys)
		}
		for i, c := range counts {
			if c.Key != keys[i] || c.Count != len(members[keys[i]]) {
				return fmt.Sprintf("%s (%s) = %v: entry %d, want key %v count %d", op, t.describe(), counts, i, keys[i], len(members[keys[i]]))
			}
		}
		if msg := t.intact(op); msg != "" {
			return msg
		}
	}
	// TryGet, SafeGet, SafeGetOr, Last
	for _, i := range []int{math.MinInt, -1, 0, 1, n - 1, n, n + 1, math.MaxInt} {
		in := i >= 0 && i < n
		wv, wor := t.zeroE, d.id(d.scribble)
		if in {
			wv, wor = t.snap[i], t.snap[i]
		}
		gv, gok := slices.TryGet(s, i)
		if msg := t.checkVal(fmt.Sprintf("TryGet(s, %d)", i), d.id(gv) == wv && gok == in, fmt.Sprint(d.id(gv), gok), fmt.Sprint(wv, in)); msg != "" {
			return msg
		}
		gv = slices.SafeGet(s, i)
		if msg := t.checkVal(fmt.Sprintf("SafeGet(s, %d)", i), d.id(gv) == wv, d.id(gv), wv); msg != "" {
			return msg
		}
		gv = slices.SafeGetOr(s, i, d.scribble)
		if msg := t.checkVal(fmt.Sprintf("SafeGetOr(s, %d, fallback)", i), d.id(gv) == wor, d.id(gv), wor); msg != "" {
			return msg
		}
	}
	if n > 0 {
		gv := slices.Last(s)
		if msg := t.checkVal("Last(s)", d.id(gv) == t.snap[n-1], d.id(gv), t.snap[n-1]); msg != "" {
			return msg
		}
	}
	// maps with the type as VALUE (position -> element): Clone, Keys, Values, HasKey, Clear
	{
		var mv namedMap[int, E]
		if n > 0 || !t.c.Nil {
			mv = namedMap[int, E]{}
			for pos := 0; pos < n; pos++ {
				mv[pos] = s[pos]
			}
		}
		sameMV := func(x namedMap[int, E]) bool {
			if len(x) != n {
				return false
			}
			for pos := 0; pos < n; pos++ {
				if e, ok := x[pos]; !ok || d.id(e) != t.snap[pos] {
					return false
				}
			}
			return true
		}
		var cl namedMap[int, E] = maps.Clone(mv)
		t.out.Evals++
		if !sameMV(cl) || cl == nil {
			return fmt.Sprintf("maps.Clone(map position->element of %s): the clone (nil: %v, %d entries) is not a new equal map", t.describe(), cl == nil, len(cl))
		}
		for pos := 0; pos < n; pos++ {
			cl[pos] = d.scribble
		}
		cl[n] = d.scribble
		delete(cl, 0)
		if !sameMV(mv) {
			return fmt.Sprintf("maps.Clone(map position->element of %s): modifying the clone changed the original", t.describe())
		}
		maps.Clear(cl)
		t.out.Evals++
		if len(cl) != 0 || !sameMV(mv) {
			return fmt.Sprintf("maps.Clear(clone of map position->element of %s): %d entries left in the clone, original has %d entries", t.describe(), len(cl), len(mv))
		}
		keys := maps.Keys(mv)
		sort.Ints(keys)
		t.out.Evals++
		for pos := 0; pos < n || pos < len(keys); pos++ {
			if len(keys) != n || keys[pos] != pos {
				return fmt.Sprintf("maps.Keys(map position->element of %s) = %v (sorted), want 0..%d", t.describe(), keys, n-1)
			}
		}
		vals := t.ids(maps.Values(mv))
		wantV := append([]string(nil), t.snap[:n]...)
		sort.Strings(vals)
		sort.Strings(wantV)
		t.out.Evals++
		if !eqStrs(vals, wantV) {
			return fmt.Sprintf("maps.Values(map position->element of %s) = %v (sorted identities), want %v", t.describe(), vals, wantV)
		}
		for _, k := range []int{-1, 0, n - 1, n} {
			t.out.Evals++
			if got, want := maps.HasKey(mv, k), k >= 0 && k < n; got != want {
				return fmt.Sprintf("maps.HasKey(map position->element of %s, %d) = %v, want %v", t.describe(), k, got, want)
			}
		}
		if !sameMV(mv) || (mv == nil) != (n == 0 && t.c.Nil) {
			return fmt.Sprintf("a maps helper modified its input (map position->element of %s)", t.describe())
		}
		if msg := t.intact("maps helpers on a map holding the elements"); msg != "" {
			return msg
		}
	}
	return ""
}

// runCmp runs the helpers that need a comparable element type.
func runCmp[E comparable](t *tstate[E]) string {
	d, n, s := t.d, t.n, t.s
	var setCl []int // ==-classes of the list's values
	for _, x := range t.set {
		setCl = append(setCl, t.deq(x))
	}
	set := make(named[E], len(t.set))
	if d.alloc != nil && len(t.set) > 0 {
		set = d.alloc(len(t.set))
	}
	for i, x := range t.set {
		set[i] = d.vals[x]
	}
	setSnap := t.ids(set)
	setIntact := func(op string) string {
		if !eqStrs(t.ids(set), setSnap) {
			return fmt.Sprintf("%s modified its second argument: now %v, was %v", op, t.ids(set), setSnap)
		}
		return ""
	}
	setDesc := fmt.Sprint(setSnap)
	if len(setSnap) > 12 {
		setDesc = fmt.Sprintf("(%d values)%v", len(setSnap), setSnap)
	}

	// Index, Contains for every domain value
	for i, v := range d.vals {
		if !t.probeOK(i) {
			continue
		}
		want := -1
		for pos := n - 1; pos >= 0; pos-- {
			if t.eqc[pos] == t.deq(i) {
				want = pos
			}
		}
		if g := slices.Index(s, v); g != want {
			return t.checkVal(fmt.Sprintf("Index(s, %s)", d.id(v)), false, g, want)
		}
		if g := slices.Contains(s, v); g != (want >= 0) {
			return t.checkVal(fmt.Sprintf("Contains(s, %s)", d.id(v)), false, g, want >= 0)
		}
		t.out.Evals += 2
	}
	if msg := t.intact("Index/Contains"); msg != "" {
		return msg
	}
	// Distinct
	var firstIdx, firstCl []int // first occurrence of every ==-class, in order (an irreflexive value is a class of its own every time)
	for pos := 0; pos < n; pos++ {
		if !has(firstCl, t.eqc[pos]) {
			firstCl = append(firstCl, t.eqc[pos])
			firstIdx = append(firstIdx, t.idx[pos])
		}
	}
	{
		var got named[E] = slices.Distinct(s)
		if msg := t.checkNew("Distinct(s)", got, firstIdx); msg != "" {
			return msg
		}
	}
	// Except, ExceptSet (they hash: left out while the value that cannot be hashed is around)
	if !t.onceUsed {
		var wantIdx []int
		for pos := 0; pos < n; pos++ {
			if !has(setCl, t.eqc[pos]) {
				wantIdx = append(wantIdx, t.idx[pos])
			}
		}
		var got named[E] = slices.Except(s, set)
		if msg := t.checkNew("Except(s, "+setDesc+")", got, wantIdx); msg != "" {
			return msg
		}
		if msg := setIntact("Except"); msg != "" {
			return msg
		}
		ex := make(maps.Set[E])
		for _, v := range set {
			ex.Add(v)
		}
		exLen := ex.Len()
		got = slices.ExceptSet[named[E], E](s, ex)
		if msg := t.checkNew("ExceptSet(s, set"+setDesc+")", got, wantIdx); msg != "" {
			return msg
		}
		if ex.Len() != exLen {
			return fmt.Sprintf("ExceptSet(s, set%s) (%s) changed the exclude set: %d elements, was %d", setDesc, t.describe(), ex.Len(), exLen)
		}
		for i, v := range d.vals {
			if d.isOnce(i) {
				continue // cannot be hashed
			}
			if ex.Has(v) != (!d.isIrrefl(i) && has(setCl, t.deq(i))) { // an irreflexive value is never found
				return fmt.Sprintf("ExceptSet(s, set%s) (%s) changed the exclude set: Has(%s)=%v", setDesc, t.describe(), d.id(v), ex.Has(v))
			}
		}
	} else {
		t.out.Labels = append(t.out.Labels, "left-out:Except-with-unhashable-value")
	}
	// Trim, TrimLeft, TrimRight
	{
		lo, hi, lo2 := t.trimBounds(func(pos int) bool { return has(setCl, t.eqc[pos]) })
		if msg := t.checkSub("Trim(s, "+setDesc+")", slices.Trim(s, set), lo, hi); msg != "" {
			return msg
		}
		if msg := t.checkSub("TrimLeft(s, "+setDesc+")", slices.TrimLeft(s, set), lo2, n); msg != "" {
			return msg
		}
		if msg := t.checkSub("TrimRight(s, "+setDesc+")", slices.TrimRight(s, set), 0, hi); msg != "" {
			return msg
		}
		if msg := setIntact("Trim"); msg != "" {
			return msg
		}
		// the slice itself as the list of unwanted values (the same memory twice): everything reflexive is unwanted
		lo, hi, lo2 = t.trimBounds(func(pos int) bool { return t.eqc[pos] >= 0 })
		if !t.onceInS {
			if msg := t.checkSub("Trim(s, s)", slices.Trim(s, s), lo, hi); msg != "" {
				return msg
			}
			if msg := t.checkSub("TrimLeft(s, s)", slices.TrimLeft(s, s), lo2, n); msg != "" {
				return msg
			}
			if msg := t.checkSub("TrimRight(s, s)", slices.TrimRight(s, s), 0, hi); msg != "" {
				return msg
			}
		}
		switch {
		case len(set) > 64:
			t.out.Labels = append(t.out.Labels, "unwanted-list>64")
		case len(set) > 32:
			t.out.Labels = append(t.out.Labels, "unwanted-list:33..64")
		case len(set) > 16:
			t.out.Labels = append(t.out.Labels, "unwanted-list:17..32")
		case len(set) > 8:
			t.out.Labels = append(t.out.Labels, "unwanted-list:9..16")
		}
	}
	// GroupBy / CountBy with the element itself as key (hashes). A key that is not equal to itself (NaN) is a group of its own
	// every time it appears (the definition is by ==); on the pinned tree such groups came back without members (fixed: 60f15f4)
	if !t.onceInS {
		members := map[int][]int{}
		for pos := 0; pos < n; pos++ {
			members[t.eqc[pos]] = append(members[t.eqc[pos]], t.idx[pos])
		}
		sameKey := func(got, want E) bool { return got == want || (got != got && want != want && d.id(got) == d.id(want)) }
		if t.nanInS {
			t.out.Labels = append(t.out.Labels, "GroupBy/CountBy-keyed-by-NaN")
		}
		groups := slices.GroupBy(s, func(e E) E { return e })
		t.out.Evals++
		if len(groups) != len(firstIdx) {
			return fmt.Sprintf("GroupBy(s, v->v) (%s): %d groups, want %d", t.describe(), len(groups), len(firstIdx))
		}
		for i, g := range groups {
			if !sameKey(g.Key, d.vals[firstIdx[i]]) || !eqStrs(t.ids(g.Values), t.idsAt(members[firstCl[i]])) {
				return fmt.Sprintf("GroupBy(s, v->v) (%s): group %d is key %s members %v, want a key == %s and members %v", t.describe(), i, d.id(g.Key), t.ids(g.Values),
					d.id(d.vals[firstIdx[i]]), t.idsAt(members[firstCl[i]]))
			}
		}
		if msg := growGroups("GroupBy(s, v->v)", t.describe(), groups, d.scribble, func(a, b E) bool { return d.id(a) == d.id(b) }); msg != "" {
			return msg
		}
		counts := slices.CountBy(s, func(e E) E { return e })
		t.out.Evals++
		if len(counts) != len(firstIdx) {
			return fmt.Sprintf("CountBy(s, v->v) (%s): %d entries, want %d", t.describe(), len(counts), len(firstIdx))
		}
		for i, c := range counts {
			if !sameKey(c.Key, d.vals[firstIdx[i]]) || c.Count != len(members[firstCl[i]]) {
				return fmt.Sprintf("CountBy(s, v->v) (%s): entry %d is key %s count %d, want a key == %s and count %d", t.describe(), i, d.id(c.Key), c.Count,
					d.id(d.vals[firstIdx[i]]), len(members[firstCl[i]]))
			}
		}
		if msg := t.intact("GroupBy/CountBy(s, v->v)"); msg != "" {
			return msg
		}
	}
	// maps with the type as KEY: element -> last position holding an ==-equal element; every irreflexive element is an entry of its
	// own that only iteration reaches. The model is the sorted list of "key:value" strings, where a reflexive key is named by its
	// class (which of two ==-equal keys with different bits the map keeps is not specified) and an irreflexive one by its bits.
	if !t.onceInS {
		lastPos := map[int]int{} // ==-class -> last position
		nanEntries := 0
		for pos := 0; pos < n; pos++ {
			lastPos[t.eqc[pos]] = pos
			if t.eqc[pos] < 0 {
				nanEntries++
			}
		}
		keyName := func(k E) string {
			if k != k {
				return "irreflexive " + d.id(k)
			}
			return "class " + strconv.Itoa(t.cls(k))
		}
		wantPairs := func(add int, withReflexive bool) []string {
			var r []string
			for pos := 0; pos < n; pos++ {
				if lastPos[t.eqc[pos]] != pos {
					continue
				}
				if t.eqc[pos] < 0 {
					r = append(r, "irreflexive "+t.snap[pos]+":"+strconv.Itoa(pos))
				} else if withReflexive {
					r = append(r, "class "+strconv.Itoa(t.eqc[pos])+":"+strconv.Itoa(pos+add))
				}
			}
			sort.Strings(r)
			return r
		}
		pairsOf := func(x namedMap[E, int]) []string {
			r := make([]string, 0, len(x))
			for k, v := range x {
				r = append(r, keyName(k)+":"+strconv.Itoa(v))
			}
			sort.Strings(r)
			return r
		}
		build := func() namedMap[E, int] {
			if n == 0 && t.c.Nil {
				return nil
			}
			mk := namedMap[E, int]{}
			for pos := 0; pos < n; pos++ {
				mk[s[pos]] = pos
			}
			return mk
		}
		mk := build()
		want0 := wantPairs(0, true)
		what := lazy(func() string {
			if nanEntries > 0 {
				return "map element->position (every irreflexive element is an entry of its own; the others: last position) of " + t.describe()
			}
			return "map element->last position of " + t.describe()
		})
		if nanEntries > 0 {
			t.out.Labels = append(t.out.Labels, "map-with-irreflexive-keys")
		}
		unchanged := func() bool { return eqStrs(pairsOf(mk), want0) && (mk == nil) == (n == 0 && t.c.Nil) }
		for i, v := range d.vals {
			if d.isOnce(i) {
				continue // cannot be hashed
			}
			_, want := lastPos[t.deq(i)]
			t.out.Evals++
			if got := maps.HasKey(mk, v); got != want {
				return fmt.Sprintf("maps.HasKey(%s, %s) = %v, want %v", what, d.id(v), got, want)
			}
		}
		keys := maps.Keys(mk)
		t.out.Evals++
		{
			var gotK, wantK []string
			for _, k := range keys {
				gotK = append(gotK, keyName(k))
			}
			for _, p := range want0 {
				wantK = append(wantK, p[:strings.LastIndexByte(p, ':')])
			}
			sort.Strings(gotK)
			sort.Strings(wantK)
			if !eqStrs(gotK, wantK) {
				return fmt.Sprintf("maps.Keys(%s) = %v: that is %v, want one key of each of %v", what, t.ids(keys), gotK, wantK)
			}
		}
		vals := maps.Values(mk)
		t.out.Evals++
		sort.Ints(vals)
		var wantVals []int
		for pos := 0; pos < n; pos++ {
			if lastPos[t.eqc[pos]] == pos {
				wantVals = append(wantVals, pos)
			}
		}
		if !eqInts(vals, wantVals) {
			return fmt.Sprintf("maps.Values(%s) = %v (sorted), want %v", what, vals, wantVals)
		}
		for p := -1; p <= n; p++ {
			wantFound := p >= 0 && p < n && lastPos[t.eqc[p]] == p
			t.out.Evals += 2
			if got := maps.ContainsValue(mk, p); got != wantFound {
				return fmt.Sprintf("maps.ContainsValue(%s, %d) = %v, want %v", what, p, got, wantFound)
			}
			k, ok := maps.KeyOf(mk, p)
			good := ok == wantFound
			if good && ok {
				if k != k {
					good = t.eqc[p] < 0 && d.id(k) == t.snap[p]
				} else {
					good = t.eqc[p] >= 0 && t.cls(k) == t.eqc[p]
				}
			}
			if !good {
				return fmt.Sprintf("maps.KeyOf(%s, %d) = (%s, %v), want found=%v and the key holding %d", what, p, d.id(k), ok, wantFound, p)
			}
		}
		var cl namedMap[E, int] = maps.Clone(mk)
		t.out.Evals++
		if got := pairsOf(cl); !eqStrs(got, want0) || cl == nil {
			return fmt.Sprintf("maps.Clone(%s): the clone (nil: %v, %d entries) is not a new equal map: it holds %v, want %v", what, cl == nil, len(cl), got, want0)
		}
		var bumped []int
		for i, v := range d.vals {
			if d.isOnce(i) || d.isIrrefl(i) {
				continue
			}
			if _, ok := cl[v]; ok && !has(bumped, d.class[i]) {
				bumped = append(bumped, d.class[i])
				cl[v] += 100
			}
		}
		if !eqStrs(pairsOf(cl), wantPairs(100, true)) || !unchanged() {
			return fmt.Sprintf("maps.Clone(%s): after adding 100 to every value of the clone (reflexive keys), the clone is wrong or the original changed: clone %v, original %v", what, pairsOf(cl), pairsOf(mk))
		}
		for i, v := range d.vals {
			if !d.isOnce(i) {
				delete(cl, v)
			}
		}
		cl[d.scribble] = 1
		if len(cl) != 1+nanEntries || !unchanged() {
			return fmt.Sprintf("maps.Clone(%s): after deleting every reflexive key from the clone and adding one, the clone has %d entries (want %d) / the original changed: %v", what, len(cl), 1+nanEntries, pairsOf(mk))
		}
		// Clear: also of a map with irreflexive keys, which a delete loop cannot reach (pinned tree: left in the map; fixed: 93417dc)
		{
			twin := build()
			if nanEntries > 0 {
				t.out.Labels = append(t.out.Labels, "Clear-of-map-with-NaN-keys")
			}
			maps.Clear(twin)
			t.out.Evals++
			if len(twin) != 0 || (twin == nil) != (n == 0 && t.c.Nil) {
				return fmt.Sprintf("maps.Clear(%s) left %d entries", what, len(twin))
			}
		}
		if !unchanged() {
			return fmt.Sprintf("a maps helper modified its input (%s): now %v", what, pairsOf(mk))
		}
	}
	// maps with the type as comparable VALUE (position -> element): ContainsValue, KeyOf
	{
		mv := namedMap[int, E]{}
		for pos := 0; pos < n; pos++ {
			mv[pos] = s[pos]
		}
		what := lazy(func() string { return "map position->element of " + t.describe() })
		for i, v := range d.vals {
			if !t.probeOK(i) {
				continue
			}
			want := has(t.eqc, t.deq(i))
			t.out.Evals += 2
			if got := maps.ContainsValue(mv, v); got != want {
				return fmt.Sprintf("maps.ContainsValue(%s, %s) = %v, want %v", what, d.id(v), got, want)
			}
			k, ok := maps.KeyOf(mv, v)
			if ok != want || (ok && (k < 0 || k >= n || t.eqc[k] != t.deq(i))) {
				return fmt.Sprintf("maps.KeyOf(%s, %s) = (%d, %v), want found=%v and a position holding an equal element", what, d.id(v), k, ok, want)
			}
		}
		if len(mv) != n {
			return fmt.Sprintf("a maps helper modified its input (%s)", what)
		}
	}
	return t.intact("maps helpers on maps keyed by the elements")
}

func finishTyped[E any](t *tstate[E], msg string) pbt.Outcome {
	if msg != "" {
		return pbt.Fail("%s", msg)
	}
	out := t.out
	distinctCl := 0
	var seen, seenIdx []int
	twin := false
	for pos := 0; pos < t.n; pos++ {
		if !has(seen, t.cl[pos]) {
			seen = append(seen, t.cl[pos])
			distinctCl++
		}
		if !has(seenIdx, t.idx[pos]) {
			seenIdx = append(seenIdx, t.idx[pos])
		}
	}
	twin = len(seenIdx) > distinctCl
	out.NonTrivial = t.n >= 3 && distinctCl < t.n
	out.Labels = append(out.Labels, "type:"+t.c.Type)
	switch {
	case t.n == 0 && t.s == nil:
		out.Labels = append(out.Labels, "n=0(nil)")
	case t.n == 0:
		out.Labels = append(out.Labels, "n=0")
	case t.n <= 2:
		out.Labels = append(out.Labels, "n=1..2")
	case t.n <= 6:
		out.Labels = append(out.Labels, "n=3..6")
	default:
		out.Labels = append(out.Labels, "n>=7")
	}
	if twin {
		out.Labels = append(out.Labels, "equal-values-with-different-identity")
	}
	if distinctCl < t.n {
		out.Labels = append(out.Labels, "has-duplicates")
	}
	if distinctCl >= 2 {
		out.Labels = append(out.Labels, ">=2-distinct")
	}
	return out
}

func typedCmp[E comparable](c TCase, d dom[E]) pbt.Outcome {
	t := newState(c, d)
	msg := runAny(t)
	if msg == "" {
		msg = runCmp(t)
	}
	return finishTyped(t, msg)
}

func typedAny[E any](c TCase, d dom[E]) pbt.Outcome {
	t := newState(c, d)
	return finishTyped(t, runAny(t))
}

// RunTyped dispatches on the element type.
func RunTyped(c TCase) pbt.Outcome {
	switch c.Type {
	case "string":
		return typedCmp(c, domString())
	case "float64":
		return typedCmp(c, domFloat())
	case "struct":
		return typedCmp(c, domStruct())
	case "array":
		return typedCmp(c, domArray())
	case "pointer":
		return typedCmp(c, domPointer())
	case "any":
		return typedCmp(c, domAny())
	case "empty":
		return typedCmp(c, domEmpty())
	case "uint8":
		return typedCmp(c, domUint8())
	case "shout":
		return typedCmp(c, domShout())
	case "float64-nan":
		return typedCmp(c, domFloatNaN())
	case "struct-nan":
		return typedCmp(c, domStructNaN())
	case "any-nan":
		return typedCmp(c, domAnyNaN())
	case "any-one-unhashable":
		return typedCmp(c, domAnyOnce())
	case "cell-one-unhashable":
		return typedCmp(c, domCellOnce())
	case "wide":
		return typedCmp(c, domWide())
	case "wide128":
		return typedCmp(c, domWide128())
	case "slice":
		return typedAny(c, domSlice())
	case "any-noncomparable":
		return typedAny(c, domAnyNC())
	}
	return pbt.Outcome{Skipped: true, Labels: []string{"unknown-type:" + strings.ToLower(c.Type)}}
}

// longListCases: lists of 9, 10, 17, 33 and 65 unwanted/excluded values (with repetitions: the domains are small) drawn from the
// whole domain with a stride, against short slices that start and end with listed and with unlisted values.
func longListCases(ty string, yield func(TCase) bool) bool {
	k := typeSizes[ty]
	for _, l := range []int{9, 10, 17, 33, 65} {
		for a := 0; a < k; a++ {
			stride := 1 + (a+l)%2
			set := make([]int, l)
			for j := range set {
				set[j] = (a + j*stride) % k
				if j >= k/2 && stride == 1 { // only half of the domain is listed
					set[j] = (a + j%(k/2+1)) % k
				}
			}
			s := []int{a, a + 1, a + k/2 + 1, a + 2, a, a + k - 1}
			if a%3 == 2 {
				s = s[:a%5]
			}
			c := TCase{Type: ty, S: s, Set: set, M: 1 + a%3, J: len(s), Spare: a % 3}
			if !yield(c) {
				return false
			}
		}
	}
	return true
}

var specTypes = pbt.Register(&pbt.Spec[TCase]{
	Property: "C14", Name: "C14.types",
	Rule: "enumerated: for every type, every index sequence of length 0..4 over the first three domain values (the first two are ==-equal with different bits where the type has such a pair; " +
		"for the NaN types they are an ordinary value and two NaNs, for the one-unhashable types an ordinary value, the value holding a slice and another ordinary value) " +
		"x every subset of them as exclude/unwanted list x m in {1,2}, j = length/2, spare = length%3; then for every type lists of 9, 10, 17, 33 and 65 unwanted/excluded values " +
		"(strided through the domain, from every starting value) against slices of 0..6 elements; rapid: type drawn, length 0..10 (size classes 0/3/8) over the whole domain, " +
		"exclude list 0..3 values or (one case in three) 9..72 values, often plus the slice's end values, m 1..4, j 0..n+1, spare 0..3; " + typedRule,
	Enum: func(shard, shards int, tier string, yieldAll func(TCase) bool) {
		i := 0
		yield := func(c TCase) bool { // the shards share the space point by point
			i++
			return i%shards != shard || yieldAll(c)
		}
		for _, ty := range typeNames {
			ok := enumSlices(3, 4, func(s []int) bool {
				for sub := 0; sub < 8; sub++ {
					set := []int{}
					for v := 0; v < 3; v++ {
						if sub&(1<<v) != 0 {
							set = append(set, v)
						}
					}
					for m := 1; m <= 2; m++ {
						c := TCase{Type: ty, S: append([]int{}, s...), Set: set, M: m, J: len(s) / 2, Spare: len(s) % 3, Nil: sub%2 == 1}
						if m == 2 {
							c.J = len(s) // never fails
						}
						if !yield(c) {
							return false
						}
					}
				}
				return true
			})
			if !ok || !longListCases(ty, yield) {
				return
			}
		}
	},
	Gen: func(t *rapid.T) TCase {
		ty := rapid.SampledFrom(typeNames).Draw(t, "type")
		k := typeSizes[ty]
		s := pbt.OpsOf(t, rapid.IntRange(0, k-1), []int{0, 3, 8}, "s")
		if len(s) > 12 {
			s = s[:12]
		}
		set := pbt.OpsOf(t, rapid.IntRange(0, k-1), []int{0, 0, 0, 0, 9, 33}, "set")
		if len(set) > 3 && len(set) < 9 {
			set = set[:3]
		}
		if n := len(s); n > 0 {
			switch rapid.IntRange(0, 3).Draw(t, "setEnds") {
			case 1:
				set = append(set, s[0])
			case 2:
				set = append(set, s[n-1])
			case 3:
				set = append(set, s[n-1], s[0])
			}
		}
		if s == nil {
			s = []int{}
		}
		if set == nil {
			set = []int{}
		}
		return TCase{Type: ty, S: s, Set: set, M: rapid.IntRange(1, 4).Draw(t, "m"), J: rapid.IntRange(0, len(s)+1).Draw(t, "j"),
			Spare: rapid.IntRange(0, 3).Draw(t, "spare"), Nil: rapid.Bool().Draw(t, "nil")}
	},
	Run: RunTyped, Quick: 2500, Thorough: 40000, Replicas: 4, ReplicaEvery: 16, // quick: two shards
})

func TestC14Types(t *testing.T) { pbt.Check(t, specTypes) }
