package c14

import (
	"errors"
	"fmt"
	"math"
	"testing"
	"time"

	"gopkg.in/typ.v4/maps"
	"gopkg.in/typ.v4/slices"
	"verifharness/internal/pbt"
)

// ---- C14.huge: zero-size elements make astronomically long slices free

// UCase is a slice of zero-size elements with the given length and capacity.
type UCase struct {
	Elem string `json:"elem"` // "struct{}" or "[0]int"
	Len  int    `json:"len"`
	Cap  int    `json:"cap"` // >= Len
	Lo   int    `json:"lo"`  // the helpers get z[Lo:] of it
}

func runHuge[E comparable](c UCase) pbt.Outcome {
	var e E
	capacity := c.Cap
	if capacity < c.Len {
		capacity = c.Len
	}
	lo := c.Lo
	if lo < 0 || lo > c.Len {
		lo = 0
	}
	z := named[E](make([]E, c.Len, capacity))[lo:]
	n := len(z)
	out := pbt.Outcome{NonTrivial: n > 1<<31}
	desc := fmt.Sprintf("z = make([]%s, %d, %d)[%d:] (%d elements of size 0)", c.Elem, c.Len, capacity, lo, n)
	bad := func(op string, got, want any) pbt.Outcome {
		return pbt.Fail("%s with %s = %v, want %v", op, desc, got, want)
	}
	yes := func(E) bool { return true }
	no := func(E) bool { return false }
	for _, i := range []int{math.MinInt, -1, 0, 1, n / 2, n - 1, n, n + 1, math.MaxInt} {
		in := i >= 0 && i < n
		out.Evals += 3
		if _, ok := slices.TryGet(z, i); ok != in {
			return bad(fmt.Sprintf("TryGet(z, %d)", i), ok, in)
		}
		if slices.SafeGet(z, i) != e || slices.SafeGetOr(z, i, e) != e {
			return bad(fmt.Sprintf("SafeGet/SafeGetOr(z, %d)", i), "another value", "the only value of the type")
		}
	}
	if n > 0 {
		if slices.Last(z) != e {
			return bad("Last(z)", "another value", "the only value of the type")
		}
		if got := slices.Index(z, e); got != 0 {
			return bad("Index(z, zero value)", got, 0)
		}
		if got := slices.IndexFunc(z, yes); got != 0 {
			return bad("IndexFunc(z, always true)", got, 0)
		}
		if got := slices.All(z, no); got {
			return bad("All(z, always false)", got, false)
		}
		out.Evals += 4
	}
	if got := slices.Contains(z, e); got != (n > 0) {
		return bad("Contains(z, zero value)", got, n > 0)
	}
	if got := slices.Any(z, yes); got != (n > 0) {
		return bad("Any(z, always true)", got, n > 0)
	}
	if got := slices.ContainsFunc(z, e, func(a, b E) bool { return true }); got != (n > 0) {
		return bad("ContainsFunc(z, zero value, always equal)", got, n > 0)
	}
	// nothing is unwanted: the Trim family returns its argument
	var none named[E]
	for _, r := range []struct {
		op  string
		got named[E]
	}{
		{"TrimFunc(z, always false)", slices.TrimFunc(z, no)}, {"TrimLeftFunc(z, always false)", slices.TrimLeftFunc(z, no)},
		{"TrimRightFunc(z, always false)", slices.TrimRightFunc(z, no)}, {"Trim(z, nil)", slices.Trim(z, none)},
		{"TrimLeft(z, empty)", slices.TrimLeft(z, named[E]{})}, {"TrimRight(z, nil)", slices.TrimRight(z, none)},
	} {
		out.Evals++
		if len(r.got) != n {
			return bad(r.op, fmt.Sprintf("a slice of %d elements", len(r.got)), fmt.Sprintf("all %d elements", n))
		}
	}
	if n > 0 {
		stop := errors.New("stop")
		calls := 0
		got, err := slices.MapErr(z, func(E) (E, error) { calls++; return e, stop })
		out.Evals++
		if err != stop || len(got) != 0 || calls != 1 {
			return bad("MapErr(z, failing at once)", fmt.Sprintf("%d results, error %v, %d calls", len(got), err, calls), "no result, the error, 1 call")
		}
	}
	// many elements: the helpers that call a callback per element are aborted by a sentinel panic of the callback's 300th invocation
	// (so the call costs nothing); what comes out must be that panic - not, say, an index-out-of-range panic of a position computed
	// in 32 bits - and MapErr failing at its 300th call returns that error
	if n > 1000 {
		abort := func(op string, call func(tick func())) string {
			calls := 0
			var rec any
			returned := false
			func() {
				defer func() { rec = recover() }()
				call(func() {
					calls++
					if calls == 300 {
						panic(abortSentinel{})
					}
				})
				returned = true
			}()
			out.Evals++
			if _, mine := rec.(abortSentinel); !mine || returned {
				return fmt.Sprintf("%s with %s and a callback that panics with a sentinel value at its 300th invocation: returned normally: %v, recovered %v after %d invocations of the callback, want the sentinel panic to come out of the call",
					op, desc, returned, rec, calls)
			}
			return ""
		}
		for _, a := range []struct {
			op   string
			call func(tick func())
		}{
			{"Fold(z, 0, st+1)", func(tick func()) { slices.Fold(z, 0, func(st int, _ E) int { tick(); return st + 1 }) }},
			{"FoldReverse(z, 0, st+1)", func(tick func()) { slices.FoldReverse(z, 0, func(st int, _ E) int { tick(); return st + 1 }) }},
			{"Map(z, v->v)", func(tick func()) { slices.Map(z, func(v E) E { tick(); return v }) }},
			{"Map(z, v->struct{}{})", func(tick func()) { slices.Map(z, func(v E) struct{} { tick(); return struct{}{} }) }},
			{"MapErr(z, v->v)", func(tick func()) { slices.MapErr(z, func(v E) (E, error) { tick(); return v, nil }) }},
			{"Filter(z, always true)", func(tick func()) { slices.Filter(z, func(E) bool { tick(); return true }) }},
			{"Filter(z, always false)", func(tick func()) { slices.Filter(z, func(E) bool { tick(); return false }) }},
			{"Any(z, always false)", func(tick func()) { slices.Any(z, func(E) bool { tick(); return false }) }},
			{"All(z, always true)", func(tick func()) { slices.All(z, func(E) bool { tick(); return true }) }},
			{"IndexFunc(z, always false)", func(tick func()) { slices.IndexFunc(z, func(E) bool { tick(); return false }) }},
			{"ContainsFunc(z, zero value, never equal)", func(tick func()) { slices.ContainsFunc(z, e, func(a, b E) bool { tick(); return false }) }},
			{"DistinctFunc(z, always equal)", func(tick func()) { slices.DistinctFunc(z, func(a, b E) bool { tick(); return true }) }},
			{"TrimFunc(z, always true)", func(tick func()) { slices.TrimFunc(z, func(E) bool { tick(); return true }) }},
			{"TrimLeftFunc(z, always true)", func(tick func()) { slices.TrimLeftFunc(z, func(E) bool { tick(); return true }) }},
			{"TrimRightFunc(z, always true)", func(tick func()) { slices.TrimRightFunc(z, func(E) bool { tick(); return true }) }},
			{"GroupBy(z, v->v)", func(tick func()) { slices.GroupBy(z, func(v E) E { tick(); return v }) }},
			{"GroupBy(z, v->7)", func(tick func()) { slices.GroupBy(z, func(v E) int { tick(); return 7 }) }},
			{"CountBy(z, v->v)", func(tick func()) { slices.CountBy(z, func(v E) E { tick(); return v }) }},
		} {
			if msg := abort(a.op, a.call); msg != "" {
				return pbt.Fail("%s", msg)
			}
		}
		stop := errors.New("stop at 300")
		calls := 0
		got, err := slices.MapErr(z, func(v E) (E, error) {
			calls++
			if calls == 300 {
				return v, stop
			}
			return v, nil
		})
		out.Evals++
		if err != stop || len(got) != 0 || calls != 300 {
			return bad("MapErr(z, failing at its 300th call)", fmt.Sprintf("%d results, error %v, %d calls", len(got), err, calls), "no result, the error, 300 calls")
		}
		out.Labels = append(out.Labels, "callback-helpers-aborted-at-call-300")
	}
	// few elements (possibly with an astronomic capacity behind them): every helper
	if n <= 1000 {
		out.NonTrivial = capacity-c.Len > 1<<31
		count := 0
		if got := slices.Fold(z, 0, func(st int, _ E) int { count++; return st + 1 }); got != n || count != n {
			return bad("Fold(z, 0, st+1)", got, n)
		}
		if got := slices.FoldReverse(z, 0, func(st int, _ E) int { return st + 1 }); got != n {
			return bad("FoldReverse(z, 0, st+1)", got, n)
		}
		if got := slices.Map(z, func(E) int { return 7 }); len(got) != n {
			return bad("len(Map(z, 7))", len(got), n)
		}
		if got := slices.Map(z, func(v E) E { return v }); len(got) != n {
			return bad("len(Map(z, v->v))", len(got), n)
		}
		if got := slices.Filter(z, yes); len(got) != n {
			return bad("len(Filter(z, always true))", len(got), n)
		}
		if got := slices.Filter(z, no); len(got) != 0 {
			return bad("len(Filter(z, always false))", len(got), 0)
		}
		d := 0
		if n > 0 {
			d = 1
		}
		if got := slices.Distinct(z); len(got) != d {
			return bad("len(Distinct(z))", len(got), d)
		}
		if got := slices.DistinctFunc(z, func(a, b E) bool { return false }); len(got) != n {
			return bad("len(DistinctFunc(z, never equal))", len(got), n)
		}
		if got := slices.Except(z, none); len(got) != n {
			return bad("len(Except(z, nil))", len(got), n)
		}
		if got := slices.Except(z, z); len(got) != 0 {
			return bad("len(Except(z, z))", len(got), 0)
		}
		if got := slices.Trim(z, z); len(got) != 0 {
			return bad("len(Trim(z, z))", len(got), 0)
		}
		g := slices.GroupBy(z, func(v E) E { return v })
		if len(g) != d || (d == 1 && len(g[0].Values) != n) {
			return bad("GroupBy(z, v->v)", fmt.Sprintf("%d groups", len(g)), fmt.Sprintf("%d group with %d members", d, n))
		}
		cn := slices.CountBy(z, func(v E) int { return 3 })
		if len(cn) != d || (d == 1 && cn[0] != slices.Counting[int]{Key: 3, Count: n}) {
			return bad("CountBy(z, 3)", cn, fmt.Sprintf("[{3 %d}] or nothing", n))
		}
		m := map[E]int{}
		for i := range z {
			m[z[i]] = i
		}
		if cl := maps.Clone(m); len(cl) != d || (d == 1 && cl[e] != n-1) {
			return bad("maps.Clone(map element->last position)", cl, m)
		}
		if ks := maps.Keys(m); len(ks) != d {
			return bad("len(maps.Keys(map element->last position))", len(ks), d)
		}
		out.Evals += 16
	}
	switch {
	case n > 1<<60:
		out.Labels = append(out.Labels, "len>2^60")
	case n > 1<<32:
		out.Labels = append(out.Labels, "len>2^32")
	case n > 1<<31:
		out.Labels = append(out.Labels, "len>2^31")
	case n > 1000:
		out.Labels = append(out.Labels, "len>1000")
	default:
		out.Labels = append(out.Labels, "len<=1000")
	}
	if capacity-c.Len > 1<<31 {
		out.Labels = append(out.Labels, "unused-capacity>2^31")
	}
	out.Labels = append(out.Labels, "elem:"+c.Elem)
	return out
}

var specHuge = pbt.Register(&pbt.Spec[UCase]{
	Property: "C14", Name: "C14.huge",
	Rule: "enumerated: slices of zero-size elements (struct{} and [0]int) of length 0, 1, 5, 1000, 2^16+1, 2^31-1, 2^31, 2^32, 2^32+1, 2^40+1, 2^62 and MaxInt, capacity = length or MaxInt, " +
		"whole or from index 1, 2^31 or len-3 on. Helpers that need not visit every element are called on all of them: TryGet/SafeGet/SafeGetOr at MinInt, -1, 0, 1, n/2, n-1, n, n+1, MaxInt; Last; " +
		"Index/Contains of the only value; IndexFunc/Any with an always-true and All with an always-false predicate; ContainsFunc; the Trim family with nothing unwanted (returns all n elements); " +
		"MapErr failing at its first call; on more than 1000 elements every helper that takes a callback (Fold, FoldReverse, Map to the element type and to struct{}, MapErr, Filter, Any, All, IndexFunc, ContainsFunc, DistinctFunc, " +
		"Trim*Func, GroupBy keyed by the element and by a constant, CountBy) is called with a callback that panics with a sentinel at its 300th invocation - exactly that panic must come out (not an index panic of a position computed in 32 bits) - " +
		"and MapErr failing at its 300th call returns that error and no result. Slices of at most 1000 elements (with up to MaxInt of capacity behind them) go through every helper (lengths of the results, fold counts, one group). " +
		"Non-trivial = more than 2^31 elements of length or of unused capacity",
	Enum: func(shard, shards int, tier string, yield func(UCase) bool) {
		for _, el := range []string{"struct{}", "[0]int"} {
			for _, n := range []int{0, 1, 5, 1000, 1<<16 + 1, 1<<31 - 1, 1 << 31, 1 << 32, 1<<32 + 1, 1<<40 + 1, 1 << 62, math.MaxInt} {
				for _, capacity := range []int{n, math.MaxInt} {
					for _, lo := range []int{0, 1, 1 << 31, n - 3} {
						if lo < 0 || lo > n || (lo == 1<<31 && n < 1<<31) {
							continue
						}
						if !yield(UCase{Elem: el, Len: n, Cap: capacity, Lo: lo}) {
							return
						}
					}
				}
			}
		}
	},
	Run: func(c UCase) pbt.Outcome {
		if c.Elem == "[0]int" {
			return runHuge[[0]int](c)
		}
		return runHuge[struct{}](c)
	},
	Exhaustive: true, Replicas: 4, ReplicaEvery: 8,
})

func TestC14Huge(t *testing.T) { pbt.Check(t, specHuge) }

// ---- C14.wrap32 (thorough only): one cheap call repeated more than 2^32 times

// WCase repeats helper Op Reps times; the arguments cycle with the repetition number (i&3), so do the expected results.
type WCase struct {
	Op   int   `json:"op"`
	Reps int64 `json:"reps"`
}

var wrapOps = []string{"TryGet", "SafeGet", "SafeGetOr", "Last", "Index", "Contains", "IndexFunc", "Any", "All", "Fold", "FoldReverse", "ContainsFunc",
	"TrimLeft", "TrimRight", "Trim", "TrimFunc", "maps.HasKey"}

// RunWrap: the loops are written out per helper so that a repetition costs a few nanoseconds.
func RunWrap(c WCase) pbt.Outcome {
	op := ((c.Op % len(wrapOps)) + len(wrapOps)) % len(wrapOps)
	s := myInts{4, 7, 4}
	lists := [4]myInts{{4}, {7}, {4, 7}, {}}
	m := myMap{0: 4, 2: 7}
	reps := c.Reps
	bad := func(i int64, got, want any) pbt.Outcome {
		return pbt.Fail("repetition %d of %d of %s with argument number %d on s=[4 7 4] / m=map[0:4 2:7] = %v, want %v (the earlier repetitions, with the same four arguments in turn, were right)", i+1, reps, wrapOps[op], i&3, got, want)
	}
	b2i := func(b bool) int {
		if b {
			return 1
		}
		return 0
	}
	// arguments / expectations indexed by i&3
	idx := [4]int{0, 1, 2, 3}
	val := [4]int{4, 7, 5, -1}
	switch op {
	case 0:
		want := [4]int{4, 7, 4, 0}
		for i := int64(0); i < reps; i++ {
			if v, ok := slices.TryGet(s, idx[i&3]); v != want[i&3] || ok != (i&3 < 3) {
				return bad(i, fmt.Sprint(v, ok), fmt.Sprint(want[i&3], i&3 < 3))
			}
		}
	case 1:
		want := [4]int{4, 7, 4, 0}
		for i := int64(0); i < reps; i++ {
			if v := slices.SafeGet(s, idx[i&3]); v != want[i&3] {
				return bad(i, v, want[i&3])
			}
		}
	case 2:
		want := [4]int{4, 7, 4, 99}
		for i := int64(0); i < reps; i++ {
			if v := slices.SafeGetOr(s, idx[i&3], 99); v != want[i&3] {
				return bad(i, v, want[i&3])
			}
		}
	case 3:
		want := [4]int{4, 7, 4, 4}
		for i := int64(0); i < reps; i++ {
			if v := slices.Last(s[:1+idx[i&3]%3]); v != want[i&3] {
				return bad(i, v, want[i&3])
			}
		}
	case 4:
		want := [4]int{0, 1, -1, -1}
		for i := int64(0); i < reps; i++ {
			if v := slices.Index(s, val[i&3]); v != want[i&3] {
				return bad(i, v, want[i&3])
			}
		}
	case 5:
		want := [4]int{1, 1, 0, 0}
		for i := int64(0); i < reps; i++ {
			if v := b2i(slices.Contains(s, val[i&3])); v != want[i&3] {
				return bad(i, v, want[i&3])
			}
		}
	case 6, 7, 8:
		wIdx, wAny, wAll := [4]int{0, 1, -1, -1}, [4]int{1, 1, 0, 0}, [4]int{0, 0, 0, 0}
		var x int
		f := func(v int) bool { return v == x }
		for i := int64(0); i < reps; i++ {
			x = val[i&3]
			switch op {
			case 6:
				if v := slices.IndexFunc(s, f); v != wIdx[i&3] {
					return bad(i, v, wIdx[i&3])
				}
			case 7:
				if v := b2i(slices.Any(s, f)); v != wAny[i&3] {
					return bad(i, v, wAny[i&3])
				}
			case 8:
				if v := b2i(slices.All(s, f)); v != wAll[i&3] {
					return bad(i, v, wAll[i&3])
				}
			}
		}
	case 9, 10:
		var want [4]int
		for k := range want {
			if op == 9 {
				want[k] = ((val[k]*31+4)*31+7)*31 + 4
			} else {
				want[k] = ((val[k]*31+4)*31+7)*31 + 4 // s is a palindrome: same value, other order of visits
			}
		}
		acc := func(st, v int) int { return st*31 + v }
		for i := int64(0); i < reps; i++ {
			v := 0
			if op == 9 {
				v = slices.Fold(s, val[i&3], acc)
			} else {
				v = slices.FoldReverse(s, val[i&3], acc)
			}
			if v != want[i&3] {
				return bad(i, v, want[i&3])
			}
		}
	case 11:
		want := [4]int{1, 1, 1, 0} // a%3 == b%3: 4~7~4, 5%3=2 no ... computed below
		eq := func(a, b int) bool { return a%3 == b%3 }
		for k := range want {
			want[k] = 0
			for _, v := range s {
				if eq(v, val[k]) {
					want[k] = 1
				}
			}
		}
		for i := int64(0); i < reps; i++ {
			if v := b2i(slices.ContainsFunc(s, val[i&3], eq)); v != want[i&3] {
				return bad(i, v, want[i&3])
			}
		}
	case 12, 13, 14:
		// unwanted lists {4}, {7}, {4,7}, {}: lengths left by TrimLeft / TrimRight / Trim of [4 7 4]
		wl, wr, wb := [4]int{2, 3, 0, 3}, [4]int{2, 3, 0, 3}, [4]int{1, 3, 0, 3}
		for i := int64(0); i < reps; i++ {
			switch op {
			case 12:
				if v := len(slices.TrimLeft(s, lists[i&3])); v != wl[i&3] {
					return bad(i, v, wl[i&3])
				}
			case 13:
				if v := len(slices.TrimRight(s, lists[i&3])); v != wr[i&3] {
					return bad(i, v, wr[i&3])
				}
			case 14:
				if v := len(slices.Trim(s, lists[i&3])); v != wb[i&3] {
					return bad(i, v, wb[i&3])
				}
			}
		}
	case 15:
		want := [4]int{1, 3, 3, 3}
		var x int
		f := func(v int) bool { return v == x }
		for i := int64(0); i < reps; i++ {
			x = val[i&3]
			if v := len(slices.TrimFunc(s, f)); v != want[i&3] {
				return bad(i, v, want[i&3])
			}
		}
	case 16:
		want := [4]int{1, 0, 1, 0}
		for i := int64(0); i < reps; i++ {
			if v := b2i(maps.HasKey(m, idx[i&3])); v != want[i&3] {
				return bad(i, v, want[i&3])
			}
		}
	}
	out := pbt.Outcome{NonTrivial: reps > 1<<32, Evals: int(reps >> 10), Labels: []string{"op:" + wrapOps[op]}}
	if reps > 1<<32 {
		out.Labels = append(out.Labels, "repetitions>2^32")
	} else if reps > 1<<16 {
		out.Labels = append(out.Labels, "repetitions>2^16")
	}
	return out
}

var specWrap32 = pbt.Register(&pbt.Spec[WCase]{
	Property: "C14", Name: "C14.wrap32",
	Rule: "thorough only. Enumerated: each of the helpers whose call costs a few nanoseconds (TryGet, SafeGet, SafeGetOr, Last, Index, Contains, IndexFunc, Any, All, Fold, FoldReverse, ContainsFunc, " +
		"TrimLeft, TrimRight, Trim, TrimFunc, maps.HasKey) called 2^32+2^12 times in a row on s=[4 7 4] / m={0:4, 2:7} with four arguments in turn, every result compared " +
		"with the constant expectation (a counter of 32 bits inside the library wraps on the way); before that the same loop with 2^16+2^8 repetitions. One case per helper (tens of seconds each). " +
		"Evaluations are counted in units of 1024 calls. The helpers that allocate or iterate over a map (Map, Filter, Distinct, GroupBy, Clone, KeyOf, ContainsValue, ...) would need five minutes and more per helper and are only repeated 2^16..2^18 times (C14.repeat)",
	Enum: func(shard, shards int, tier string, yield func(WCase) bool) {
		for op := range wrapOps {
			if op%shards != shard {
				continue
			}
			if !yield(WCase{Op: op, Reps: 1<<16 + 1<<8}) || !yield(WCase{Op: op, Reps: 1<<32 + 1<<12}) {
				return
			}
		}
	},
	Run: RunWrap, CaseCPU: 30 * time.Minute,
})

func TestC14Wrap32(t *testing.T) { pbt.Check(t, specWrap32) }
