package c14

import (
	"errors"
	"fmt"

	"gopkg.in/typ.v4/slices"
)

// newNested builds the re-entrancy probe of a case: a function that - called from inside a callback while an
// outer helper is running - runs a bundle of helpers on a second slice (the last up to 7 elements of the
// case's slice in reverse order, followed by 3, 1, 3) and compares every result with a naive loop computed
// once, outside any library call. The bundle has four parts (Fold/FoldReverse/Map/MapErr; Filter/Any/All/Index;
// Distinct/DistinctFunc/Except/Trim; GroupBy/CountBy); every invocation runs the next part, starting with part
// `first`, so that over the invocations of one case every part runs inside every kind of outer callback.
// The first mismatch is stored in *during.
func newNested(orig []int, first int, during *string) func() {
	var alt []int
	for i := len(orig) - 1; i >= 0 && len(alt) < 7; i-- {
		alt = append(alt, orig[i])
	}
	alt = append(alt, 3, 1, 3)
	na := len(alt)
	// expectations
	wFold, wFoldR := 1, 1
	for i := 0; i < na; i++ {
		wFold = wFold*7 + alt[i]
		wFoldR = wFoldR*7 + alt[na-1-i]
	}
	var wMap, wFilter, wDistinct, wDistinctF, wExcept []int
	wAny, wAll := false, true
	for _, v := range alt {
		wMap = append(wMap, v+1)
		if v%2 == 0 {
			wFilter = append(wFilter, v)
			wAny = true
		} else {
			wAll = false
		}
		if !has(wDistinct, v) {
			wDistinct = append(wDistinct, v)
		}
		seen := false
		for _, w := range wDistinctF {
			if w%2 == v%2 {
				seen = true
			}
		}
		if !seen {
			wDistinctF = append(wDistinctF, v)
		}
		if v != alt[0] {
			wExcept = append(wExcept, v)
		}
	}
	wGroups := groupsOf(alt, func(v int) int { return v % 3 })
	lo, hi := 0, na
	for hi > 0 && alt[hi-1] == alt[0] {
		hi--
	}
	for lo < hi && alt[lo] == alt[0] {
		lo++
	}
	wIndex := -1
	for i, v := range alt {
		if v == alt[na-1] {
			wIndex = i
			break
		}
	}
	errStop := errors.New("stop")

	desc := fmt.Sprintf("nested call from inside a callback (re-entrancy), alt=%v", alt)
	turn := first
	return func() {
		if *during != "" {
			return
		}
		part := turn % 4
		turn++
		fail := func(op string, got, want any) {
			if *during == "" {
				*during = fmt.Sprintf("nested call from inside a callback (re-entrancy): %s with alt=%v returned %v, want %v", op, alt, got, want)
			}
		}
		a := append(myInts(nil), alt...)
		defer func() {
			if !eqInts(a, alt) {
				fail("the bundle (input afterwards)", []int(a), alt)
			}
		}()
		switch part {
		case 0:
			nestedFold(a, fail, wFold, wFoldR, wMap, errStop)
		case 1:
			nestedFilter(a, fail, wFilter, wAny, wAll, wIndex)
		case 2:
			nestedDistinct(a, alt, fail, wDistinct, wDistinctF, wExcept, lo, hi)
		case 3:
			if msg := checkGroups("GroupBy(alt, v%3)", desc, na, slices.GroupBy(a, func(v int) int { return v % 3 }), wGroups); msg != "" && *during == "" {
				*during = msg
			}
			if msg := checkCounts("CountBy(alt, v%3)", desc, slices.CountBy(a, func(v int) int { return v % 3 }), wGroups); msg != "" && *during == "" {
				*during = msg
			}
		}
	}
}

func nestedFold(a myInts, fail func(string, any, any), wFold, wFoldR int, wMap []int, errStop error) {
	{
		if got := slices.Fold(a, 1, func(st, v int) int { return st*7 + v }); got != wFold {
			fail("Fold(alt, 1, st*7+v)", got, wFold)
		}
		if got := slices.FoldReverse(a, 1, func(st, v int) int { return st*7 + v }); got != wFoldR {
			fail("FoldReverse(alt, 1, st*7+v)", got, wFoldR)
		}
		if got := slices.Map(a, func(v int) int { return v + 1 }); !eqInts(got, wMap) {
			fail("Map(alt, v+1)", got, wMap)
		}
		calls := 0
		if got, err := slices.MapErr(a, func(v int) (int, error) {
			calls++
			if calls == 2 {
				return 0, errStop
			}
			return v, nil
		}); err != errStop || len(got) != 0 || calls != 2 {
			fail("MapErr(alt, failing at its 2nd call)", fmt.Sprint(got, err, " after ", calls, " calls"), "no result, the error of the 2nd call, 2 calls")
		}
	}
}

func nestedFilter(a myInts, fail func(string, any, any), wFilter []int, wAny, wAll bool, wIndex int) {
	na := len(a)
	alt := a
	{
		if got := slices.Filter(a, func(v int) bool { return v%2 == 0 }); !eqInts(got, wFilter) {
			fail("Filter(alt, v%2==0)", []int(got), wFilter)
		}
		if got := slices.Any(a, func(v int) bool { return v%2 == 0 }); got != wAny {
			fail("Any(alt, v%2==0)", got, wAny)
		}
		if got := slices.All(a, func(v int) bool { return v%2 == 0 }); got != wAll {
			fail("All(alt, v%2==0)", got, wAll)
		}
		if got := slices.Index(a, alt[na-1]); got != wIndex {
			fail(fmt.Sprintf("Index(alt, %d)", alt[na-1]), got, wIndex)
		}
	}
}

func nestedDistinct(a myInts, alt []int, fail func(string, any, any), wDistinct, wDistinctF, wExcept []int, lo, hi int) {
	{
		if got := slices.Distinct(a); !eqInts(got, wDistinct) {
			fail("Distinct(alt)", []int(got), wDistinct)
		}
		if got := slices.DistinctFunc(a, func(x, y int) bool { return x%2 == y%2 }); !eqInts(got, wDistinctF) {
			fail("DistinctFunc(alt, a%2==b%2)", []int(got), wDistinctF)
		}
		if got := slices.Except(a, myInts{alt[0]}); !eqInts(got, wExcept) {
			fail(fmt.Sprintf("Except(alt, [%d])", alt[0]), []int(got), wExcept)
		}
		if got := slices.Trim(a, myInts{alt[0]}); !eqInts(got, alt[lo:hi]) {
			fail(fmt.Sprintf("Trim(alt, [%d])", alt[0]), []int(got), alt[lo:hi])
		}
	}
}
