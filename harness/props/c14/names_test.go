package c14

import (
	mrand "math/rand"
	mrand2 "math/rand/v2"
	"strconv"
	"testing"
	"unsafe"

	"pgregory.net/rapid"
	"verifharness/internal/pbt"
)

// C14.names: DISTINCT element/key types that print the same name, used alternately in one case (and, through Replicas, at the same
// time in parallel goroutines): three function-local types that are all called `job` (reflect: "c14.job") with different layouts,
// and *rand.Rand of math/rand and of math/rand/v2 (both print "*rand.Rand"). Scratch structures that a library keeps per type must
// be keyed by the type, not by its name. The oracles are those of C14.types (every helper, results by identity).

// NCase: the typed case is run on the types listed in Order, one after the other.
type NCase struct {
	Order []int `json:"order"` // indices into nameTypes (reduced modulo their number)
	T     TCase `json:"t"`     // Type is ignored; S/Set index a domain of 6 values in every type
}

var nameTypes = []string{"job{ID int; Name string}", "job{W float64; ID int32; Tag [3]byte}", "job int16", "*math/rand.Rand", "*math/rand/v2.Rand"}

// Every domain has 6 values in the classes 0 0 1 2 3 4 (the first two are equal values, for the pointers the same pointer).
func namesJobA(c TCase) pbt.Outcome {
	type job struct {
		ID   int
		Name string
	}
	return typedCmp(c, dom[job]{
		vals:  []job{{1, "a"}, {1, string([]byte{'a'})}, {1, "b"}, {2, "a"}, {0, ""}, {-1, "zz"}},
		class: []int{0, 0, 1, 2, 3, 4},
		id:    func(j job) string { return strconv.Itoa(j.ID) + "/" + strconv.Quote(j.Name) }, poison: job{-99, "poison"}, scribble: job{7777, "scribble"},
	})
}

func namesJobB(c TCase) pbt.Outcome {
	type job struct {
		W   float64
		ID  int32
		Tag [3]byte
	}
	return typedCmp(c, dom[job]{
		vals:  []job{{1.5, 1, [3]byte{1}}, {1.5, 1, [3]byte{1, 0, 0}}, {1.5, 1, [3]byte{0, 0, 1}}, {2.5, 1, [3]byte{1}}, {}, {1.5, -1, [3]byte{1}}},
		class: []int{0, 0, 1, 2, 3, 4},
		id:    func(j job) string { return f64id(j.W) + "/" + strconv.Itoa(int(j.ID)) + "/" + string(j.Tag[:]) }, poison: job{-99, -99, [3]byte{9, 9, 9}}, scribble: job{7777, 7777, [3]byte{7, 7, 7}},
	})
}

func namesJobC(c TCase) pbt.Outcome {
	type job int16
	return typedCmp(c, dom[job]{
		vals:  []job{5, 5, -5, 0, 32767, -32768},
		class: []int{0, 0, 1, 2, 3, 4},
		id:    func(j job) string { return strconv.Itoa(int(j)) }, poison: -99, scribble: 7777,
	})
}

func namesRand1(c TCase) pbt.Outcome {
	p := []*mrand.Rand{mrand.New(mrand.NewSource(1)), mrand.New(mrand.NewSource(1)), nil, mrand.New(mrand.NewSource(2)), mrand.New(mrand.NewSource(3))}
	return typedCmp(c, dom[*mrand.Rand]{
		vals:  []*mrand.Rand{p[0], p[0], p[1], p[2], p[3], p[4]},
		class: []int{0, 0, 1, 2, 3, 4},
		id:    func(r *mrand.Rand) string { return ptrID(unsafe.Pointer(r)) }, poison: mrand.New(mrand.NewSource(98)), scribble: mrand.New(mrand.NewSource(99)),
	})
}

func namesRand2(c TCase) pbt.Outcome {
	p := []*mrand2.Rand{mrand2.New(mrand2.NewPCG(1, 1)), mrand2.New(mrand2.NewPCG(1, 1)), nil, mrand2.New(mrand2.NewPCG(2, 2)), mrand2.New(mrand2.NewPCG(3, 3))}
	return typedCmp(c, dom[*mrand2.Rand]{
		vals:  []*mrand2.Rand{p[0], p[0], p[1], p[2], p[3], p[4]},
		class: []int{0, 0, 1, 2, 3, 4},
		id:    func(r *mrand2.Rand) string { return ptrID(unsafe.Pointer(r)) }, poison: mrand2.New(mrand2.NewPCG(98, 98)), scribble: mrand2.New(mrand2.NewPCG(99, 99)),
	})
}

func RunNames(c NCase) pbt.Outcome {
	var out pbt.Outcome
	seen := map[int]bool{}
	for step, o := range c.Order {
		k := ((o % len(nameTypes)) + len(nameTypes)) % len(nameTypes)
		t := c.T
		t.Type = nameTypes[k]
		var r pbt.Outcome
		switch k {
		case 0:
			r = namesJobA(t)
		case 1:
			r = namesJobB(t)
		case 2:
			r = namesJobC(t)
		case 3:
			r = namesRand1(t)
		default:
			r = namesRand2(t)
		}
		if r.Violation != "" {
			return pbt.Fail("step %d of the order %v (types %q; the first three all print as c14.job, the last two as *rand.Rand), on type %s: %s", step, c.Order, nameTypes, nameTypes[k], r.Violation)
		}
		out.Evals += r.Evals
		if !seen[k] {
			seen[k] = true
			out.Labels = append(out.Labels, "type:"+nameTypes[k])
		}
		if step == 0 {
			out.NonTrivial = r.NonTrivial
			for _, l := range r.Labels {
				if len(l) < 5 || l[:5] != "type:" {
					out.Labels = append(out.Labels, l)
				}
			}
		}
	}
	out.NonTrivial = out.NonTrivial && len(seen) >= 2
	return out
}

var nameOrders = [][]int{{0, 1, 0, 1}, {1, 2, 1, 0}, {2, 0, 2, 1, 2}, {3, 4, 3, 4}, {4, 3, 0, 3}, {0, 1, 2, 3, 4, 0, 1, 2, 3, 4}, {1, 0}, {4, 3}}

var specNames = pbt.Register(&pbt.Spec[NCase]{
	Property: "C14", Name: "C14.names",
	Rule: "one typed case (see C14.types) run on several DISTINCT types with the same printed name, one after the other in a given order: three function-local types named `job` " +
		"(struct{int; string}, struct{float64; int32; [3]byte}, int16 - all print as c14.job) and *rand.Rand of math/rand and of math/rand/v2; each with a domain of 6 values in the ==-classes 0 0 1 2 3 4. " +
		"Enumerated: every index sequence of length 0..4 over the first three values x three exclude lists x 8 orders (two or three of the types alternating; all five twice); one case in four runs again as four parallel copies. " +
		"rapid: slices of 0..10 elements over the whole domain, lists of 0..3 (or 9..) values, m 1..4, random order of 2..8 steps. " + typedRule,
	Enum: func(shard, shards int, tier string, yield func(NCase) bool) {
		i := 0
		enumSlices(3, 4, func(s []int) bool {
			for sub := 0; sub < 8; sub += 3 {
				set := []int{}
				for v := 0; v < 3; v++ {
					if sub&(1<<v) != 0 {
						set = append(set, v)
					}
				}
				for oi, order := range nameOrders {
					if tier != "thorough" && (oi+len(s)+sub)%4 != 0 {
						continue
					}
					i++
					if i%shards != shard {
						continue
					}
					c := NCase{Order: order, T: TCase{S: append([]int{}, s...), Set: set, M: 1 + i%2, J: len(s) - i%2, Spare: i % 3}}
					if !yield(c) {
						return false
					}
				}
			}
			return true
		})
	},
	Gen: func(t *rapid.T) NCase {
		s := pbt.OpsOf(t, rapid.IntRange(0, 5), []int{0, 3, 8}, "s")
		if len(s) > 12 {
			s = s[:12]
		}
		set := pbt.OpsOf(t, rapid.IntRange(0, 5), []int{0, 0, 0, 9}, "set")
		if s == nil {
			s = []int{}
		}
		if set == nil {
			set = []int{}
		}
		order := rapid.SliceOfN(rapid.IntRange(0, len(nameTypes)-1), 2, 8).Draw(t, "order")
		return NCase{Order: order, T: TCase{S: s, Set: set, M: rapid.IntRange(1, 4).Draw(t, "m"), J: rapid.IntRange(0, len(s)+1).Draw(t, "j"), Spare: rapid.IntRange(0, 3).Draw(t, "spare")}}
	},
	Run: RunNames, Quick: 400, Thorough: 20000, Replicas: 4, ReplicaEvery: 4,
})

func TestC14Names(t *testing.T) { pbt.Check(t, specNames) }
