package c14

import (
	"bytes"
	"errors"
	"fmt"
	"runtime"
	"strconv"
	"sync"
	"testing"
	"time"

	"gopkg.in/typ.v4/maps"
	"gopkg.in/typ.v4/slices"
	"verifharness/internal/pbt"
)

// C14.long: lengths far beyond those of C14.big, affordable because the elements are single bytes: 2^20+1 .. 2^24+1 elements
// (work done in pieces of 2^22 elements meets several pieces; a helper that recurses once per element, or once per small chunk,
// needs more than the 1 GB a goroutine stack may grow to and the process dies with "fatal error: stack overflow", which the driver
// reports as a violation of the case that was running). The stack a recursion needs also grows with the size of the State / Result
// type, so Fold and FoldReverse are also run with a 512-byte state on 2^20+1.. elements and with a 1 MiB state on 1100 elements.
// Optionally another goroutine keeps changing runtime.GOMAXPROCS (2 <-> 7) while the calls run.

type LCase struct {
	N     int    `json:"n"`
	D     int    `json:"d"`     // distinct values 0..D-1 (2..8)
	Kind  int    `json:"kind"`  // arrangement, see largeSlice
	State string `json:"state"` // "word": every helper, fold state [2]int64; "cheap": the same without the helpers that hash every element (Except, ExceptSet, GroupBy, CountBy); "512B": Fold/FoldReverse/Map/MapErr with [64]int64; "1MiB": Fold/FoldReverse with [1<<17]int64
	Flip  bool   `json:"flip"`  // another goroutine flips GOMAXPROCS between 2 and 7 during the case
	Map   bool   `json:"map"`   // instead of the slice helpers: the map helpers on a map of N entries (uint32 -> uint8)
}

type myBytes []uint8
type state512 [64]int64
type state1M [1 << 17]int64

// flipProcs starts the goroutine that keeps changing GOMAXPROCS; the returned function stops it and restores the setting.
func flipProcs() (stop func() int) {
	procsMu.Lock()
	old := runtime.GOMAXPROCS(0)
	quit := make(chan struct{})
	var wg sync.WaitGroup
	flips := 0
	wg.Add(1)
	go func() {
		defer wg.Done()
		for {
			for _, p := range []int{2, 7} {
				select {
				case <-quit:
					return
				default:
				}
				runtime.GOMAXPROCS(p)
				flips++
				time.Sleep(500 * time.Microsecond)
			}
		}
	}()
	return func() int {
		close(quit)
		wg.Wait()
		runtime.GOMAXPROCS(old)
		procsMu.Unlock()
		return flips
	}
}

func longBytes(c LCase) myBytes {
	d := c.D
	if d < 2 {
		d = 2
	}
	if d > 8 {
		d = 8
	}
	n := c.N
	if n < 1 {
		n = 1
	}
	s := make(myBytes, n)
	g := lcg(n + d)
	for i := range s {
		switch c.Kind % 5 {
		case 0:
			s[i] = uint8(g.next(d))
		case 1:
			s[i] = uint8(i % d)
		case 2:
			s[i] = uint8(int64(i) * int64(d) / int64(n))
		case 3:
			s[i] = uint8(d - 1 - int(int64(i)*int64(d-1)/int64(n)))
		case 4:
			s[i] = uint8(d - 1)
		}
	}
	switch c.Kind % 5 {
	case 3:
		s[n-1] = 0
	case 4:
		s[g.next(n)] = 0
	}
	return s
}

func RunLong(c LCase) (out pbt.Outcome) {
	flips := 0
	if c.Flip {
		stop := flipProcs()
		defer func() {
			flips = stop()
			if flips > 0 {
				out.Labels = append(out.Labels, "GOMAXPROCS-flipped-during-the-calls")
			}
		}()
	}
	if c.Map {
		return runLongMap(c)
	}
	s := longBytes(c)
	n := len(s)
	snap := append([]uint8(nil), s...)
	desc := fmt.Sprintf("s = %d bytes over the values 0..%d in arrangement %d (see largeSlice), GOMAXPROCS flipping: %v", n, c.D-1, c.Kind%5, c.Flip)
	intact := func(op string) string {
		if !bytes.Equal(s, snap) {
			return fmt.Sprintf("%s modified its input (%s)", op, desc)
		}
		return ""
	}
	out.Labels = append(out.Labels, "state:"+c.State, "len>=2^"+strconv.Itoa(log2(n)))
	out.NonTrivial = true
	var msg string
	switch c.State {
	case "1MiB":
		msg = longFolds(s, desc, state1M{}, func(st state1M, v uint8) state1M { st[0] = st[0]*31 + int64(v); st[len(st)-1]++; return st },
			func(st state1M) [2]int64 { return [2]int64{st[0], st[len(st)-1]} })
		out.Evals += 2
	case "512B":
		msg = longFolds(s, desc, state512{}, func(st state512, v uint8) state512 { st[0] = st[0]*31 + int64(v); st[len(st)-1]++; return st },
			func(st state512) [2]int64 { return [2]int64{st[0], st[len(st)-1]} })
		out.Evals += 2
		if msg == "" && n <= 1<<18 {
			msg = longMapWide(s, desc)
			out.Evals += 2
		}
	default:
		msg = longFolds(s, desc, [2]int64{}, func(st [2]int64, v uint8) [2]int64 { st[0] = st[0]*31 + int64(v); st[1]++; return st },
			func(st [2]int64) [2]int64 { return st })
		out.Evals += 2
		if msg == "" {
			msg = longHelpers(c, s, desc, intact, &out)
		}
	}
	if msg == "" {
		msg = intact("one of the helpers")
	}
	if msg != "" {
		return pbt.Fail("%s", msg)
	}
	return out
}

func log2(n int) int {
	k := 0
	for n > 1 {
		n >>= 1
		k++
	}
	return k
}

// longFolds: Fold and FoldReverse with a state of type St that records 31*st+v (order-sensitive) and the number of calls.
func longFolds[St any](s myBytes, desc string, zero St, acc func(St, uint8) St, view func(St) [2]int64) string {
	var wf, wr int64
	for i := range s {
		wf = wf*31 + int64(s[i])
		wr = wr*31 + int64(s[len(s)-1-i])
	}
	n := int64(len(s))
	if got := view(slices.Fold(s, zero, acc)); got != [2]int64{wf, n} {
		return fmt.Sprintf("Fold(s, zero state of %T, st[0]=31*st[0]+v and a call counter) (%s) = (%d, %d calls), want (%d, %d calls)", zero, desc, got[0], got[1], wf, n)
	}
	if got := view(slices.FoldReverse(s, zero, acc)); got != [2]int64{wr, n} {
		return fmt.Sprintf("FoldReverse(s, zero state of %T, st[0]=31*st[0]+v and a call counter) (%s) = (%d, %d calls), want (%d, %d calls)", zero, desc, got[0], got[1], wr, n)
	}
	return ""
}

// longMapWide: Map and MapErr to a 512-byte result type.
func longMapWide(s myBytes, desc string) string {
	conv := func(v uint8) state512 { var r state512; r[0], r[63] = int64(v), ^int64(v); return r }
	got := slices.Map(s, conv)
	got2, err := slices.MapErr(s, func(v uint8) (state512, error) { return conv(v), nil })
	if err != nil || len(got) != len(s) || len(got2) != len(s) {
		return fmt.Sprintf("Map / MapErr(s, v -> [64]int64{v, 0.., ^v}) (%s): %d and %d results, error %v, want %d results", desc, len(got), len(got2), err, len(s))
	}
	for i, v := range s {
		if got[i] != conv(v) || got2[i] != conv(v) {
			return fmt.Sprintf("Map / MapErr(s, v -> [64]int64{v, 0.., ^v}) (%s): result %d is wrong", desc, i)
		}
	}
	return ""
}

var errLong = errors.New("conversion failed")

func runLongMap(c LCase) pbt.Outcome {
	n := c.N
	m := make(map[uint32]uint8, 0)
	key := func(i int) uint32 { return uint32(i) * 2654435761 } // odd multiplier: a bijection of uint32
	for i := 0; i < n; i++ {
		m[key(i)] = uint8(i % 251)
	}
	m[key(n-1)] = 255 // the only 255
	desc := fmt.Sprintf("m = {uint32(i)*2654435761: i%%251 for i < %d, the last one holding 255}", n)
	out := pbt.Outcome{NonTrivial: true, Labels: []string{"map", "len>=2^" + strconv.Itoa(log2(n))}}
	check := func() string {
		if len(m) != n {
			return fmt.Sprintf("the input map now has %d entries (%s)", len(m), desc)
		}
		for i := 0; i < n; i++ {
			w := uint8(i % 251)
			if i == n-1 {
				w = 255
			}
			if v, ok := m[key(i)]; !ok || v != w {
				return fmt.Sprintf("the input map was modified at key %d (%s)", key(i), desc)
			}
		}
		return ""
	}
	cl := maps.Clone(m)
	ks, vs := maps.Keys(m), maps.Values(m)
	out.Evals += 3
	if len(cl) != n || len(ks) != n || len(vs) != n {
		return pbt.Fail("maps.Clone / Keys / Values (%s): %d entries, %d keys, %d values, want %d each", desc, len(cl), len(ks), len(vs), n)
	}
	var hist, want [256]int
	for i := 0; i < n; i++ {
		want[m[key(i)]]++
		if cl[key(i)] != m[key(i)] {
			return pbt.Fail("maps.Clone (%s): key %d holds %d, want %d", desc, key(i), cl[key(i)], m[key(i)])
		}
	}
	for _, v := range vs {
		hist[v]++
	}
	if hist != want {
		return pbt.Fail("maps.Values (%s): the values are not those of the map (histogram %v, want %v)", desc, hist, want)
	}
	seen := make([]bool, n) // key(i) is a bijection of uint32: 244002641 is the inverse of 2654435761 modulo 2^32
	for _, k := range ks {
		i := int(k * 244002641)
		if i >= n || seen[i] {
			return pbt.Fail("maps.Keys (%s): key %d is not in the map or was returned twice", desc, k)
		}
		seen[i] = true
	}
	if k, ok := maps.KeyOf(m, 255); !ok || k != key(n-1) {
		return pbt.Fail("maps.KeyOf(m, 255) (%s) = %d, %v, want %d, true", desc, k, ok, key(n-1))
	}
	if _, ok := maps.KeyOf(m, 252); ok || maps.ContainsValue(m, 253) || !maps.ContainsValue(m, 255) || !maps.HasKey(m, key(n/2)) || maps.HasKey(m, key(n)) {
		return pbt.Fail("maps.KeyOf(m, 252) / ContainsValue(m, 253 and 255) / HasKey(m, present and absent key) (%s): one of them is wrong", desc)
	}
	out.Evals += 6
	// the results are new: clear them, the input stays
	for k := range cl {
		delete(cl, k)
	}
	for i := range ks {
		ks[i], vs[i] = 0, 0
	}
	if msg := check(); msg != "" {
		return pbt.Fail("after clearing the results of maps.Clone/Keys/Values: %s", msg)
	}
	return out
}

// longHelpers: every slice helper once on the long byte slice.
func longHelpers(c LCase, s myBytes, desc string, intact func(string) string, out *pbt.Outcome) string {
	n := len(s)
	d := uint8(c.D)
	eqB := func(op string, got, want []uint8) string {
		out.Evals++
		if !bytes.Equal(got, want) {
			at := 0
			for at < len(got) && at < len(want) && got[at] == want[at] {
				at++
			}
			return fmt.Sprintf("%s (%s): %d results, want %d; first difference at index %d", op, desc, len(got), len(want), at)
		}
		if msg := intact(op); msg != "" {
			return msg
		}
		full := got[:cap(got)]
		for i := range full {
			full[i] = 0xEE
		}
		if msg := intact(op); msg != "" {
			return "after overwriting the result: " + msg
		}
		return ""
	}
	val := func(op string, ok bool, got, want any) string {
		out.Evals++
		if !ok {
			return fmt.Sprintf("%s (%s) = %v, want %v", op, desc, got, want)
		}
		return ""
	}
	// reference data in one pass
	var count [256]int
	firstAt, lastAt := [256]int{}, [256]int{}
	var firsts []uint8
	for i := range firstAt {
		firstAt[i] = -1
	}
	for i, v := range s {
		if firstAt[v] < 0 {
			firstAt[v] = i
			firsts = append(firsts, v)
		}
		lastAt[v] = i
		count[v]++
	}
	// Map, MapErr
	want := make([]uint8, n)
	for i, v := range s {
		want[i] = v*7 + 3
	}
	if msg := eqB("Map(s, 7v+3)", slices.Map(s, func(v uint8) uint8 { return v*7 + 3 }), want); msg != "" {
		return msg
	}
	if got := slices.Map(s, func(uint8) struct{} { return struct{}{} }); len(got) != n {
		return val("len(Map(s, v -> struct{}{}))", false, len(got), n)
	}
	got, err := slices.MapErr(s, func(v uint8) (uint8, error) { return v*7 + 3, nil })
	if err != nil {
		return val("MapErr(s, 7v+3, never failing)", false, err, "no error")
	}
	if msg := eqB("MapErr(s, 7v+3, never failing)", got, want); msg != "" {
		return msg
	}
	for _, j := range []int{n - 1, n / 2, 1<<22 + 1} {
		if j < 0 || j >= n {
			continue
		}
		calls := 0
		got, err = slices.MapErr(s, func(v uint8) (uint8, error) {
			calls++
			if calls-1 >= j {
				return 0, errLong
			}
			return v, nil
		})
		if msg := val(fmt.Sprintf("MapErr(s, failing at call %d)", j), err == errLong && len(got) == 0 && calls == j+1, fmt.Sprintf("%d results, error %v, %d calls", len(got), err, calls), fmt.Sprintf("no result, the error, %d calls", j+1)); msg != "" {
			return msg
		}
	}
	// Filter
	want = want[:0]
	for _, v := range s {
		if v != 0 {
			want = append(want, v)
		}
	}
	if msg := eqB("Filter(s, v != 0)", slices.Filter(s, func(v uint8) bool { return v != 0 }), want); msg != "" {
		return msg
	}
	if msg := eqB("Filter(s, v == 0)", slices.Filter(s, func(v uint8) bool { return v == 0 }), make([]uint8, count[0])); msg != "" {
		return msg
	}
	// Any, All, IndexFunc, Index, Contains, ContainsFunc: the value that appears last, the first one, an absent one
	latest := firsts[len(firsts)-1]
	for _, p := range []uint8{latest, s[0], 0, d - 1, 200} {
		p := p
		if g := slices.Index(s, p); g != firstAt[p] {
			return val(fmt.Sprintf("Index(s, %d)", p), false, g, firstAt[p])
		}
		if g := slices.IndexFunc(s, func(v uint8) bool { return v == p }); g != firstAt[p] {
			return val(fmt.Sprintf("IndexFunc(s, v == %d)", p), false, g, firstAt[p])
		}
		if g := slices.Contains(s, p); g != (count[p] > 0) {
			return val(fmt.Sprintf("Contains(s, %d)", p), false, g, count[p] > 0)
		}
		if g := slices.ContainsFunc(s, p, func(a, b uint8) bool { return a == b }); g != (count[p] > 0) {
			return val(fmt.Sprintf("ContainsFunc(s, %d, ==)", p), false, g, count[p] > 0)
		}
		if g := slices.Any(s, func(v uint8) bool { return v == p }); g != (count[p] > 0) {
			return val(fmt.Sprintf("Any(s, v == %d)", p), false, g, count[p] > 0)
		}
		if g := slices.All(s, func(v uint8) bool { return v != p }); g != (count[p] == 0) {
			return val(fmt.Sprintf("All(s, v != %d)", p), false, g, count[p] == 0)
		}
		out.Evals += 6
	}
	if g := slices.All(s, func(v uint8) bool { return v < d }); !g {
		return val(fmt.Sprintf("All(s, v < %d)", d), false, g, true)
	}
	// Distinct, DistinctFunc
	if msg := eqB("Distinct(s)", slices.Distinct(s), firsts); msg != "" {
		return msg
	}
	var f2 []uint8 // first appearances of the classes v/2
	for _, v := range firsts {
		dup := false
		for _, w := range f2 {
			dup = dup || w/2 == v/2
		}
		if !dup {
			f2 = append(f2, v)
		}
	}
	if msg := eqB("DistinctFunc(s, a/2 == b/2)", slices.DistinctFunc(s, func(a, b uint8) bool { return a/2 == b/2 }), f2); msg != "" {
		return msg
	}
	hashed := c.State != "cheap" // the helpers that hash every element cost ten times the others
	// Except, ExceptSet
	excl := myBytes{0, 2, 9}
	want = want[:0]
	for _, v := range s {
		if v != 0 && v != 2 {
			want = append(want, v)
		}
	}
	if hashed {
		if msg := eqB("Except(s, [0 2 9])", slices.Except(s, excl), want); msg != "" {
			return msg
		}
		if msg := eqB("ExceptSet(s, {0 2 9})", slices.ExceptSet(s, maps.NewSetFromSlice(excl)), want); msg != "" {
			return msg
		}
	}
	// GroupBy, CountBy keyed by the value and by its parity
	for _, mod := range []uint8{255, 2} {
		mod := mod
		if !hashed {
			break
		}
		keyer := func(v uint8) uint8 { return v % mod }
		var keys []uint8
		for _, v := range firsts {
			if !bytes.Contains(keys, []byte{keyer(v)}) {
				keys = append(keys, keyer(v))
			}
		}
		op := fmt.Sprintf("GroupBy(s, v%%%d)", mod)
		groups := slices.GroupBy(s, keyer)
		counts := slices.CountBy(s, keyer)
		out.Evals += 2
		if len(groups) != len(keys) || len(counts) != len(keys) {
			return val(op+" / CountBy", false, fmt.Sprintf("%d groups, %d counts", len(groups), len(counts)), fmt.Sprintf("%d", len(keys)))
		}
		for i, k := range keys {
			wantN := 0
			for v := range count {
				if count[v] > 0 && keyer(uint8(v)) == k {
					wantN += count[v]
				}
			}
			if groups[i].Key != k || len(groups[i].Values) != wantN || counts[i] != (slices.Counting[uint8]{Key: k, Count: wantN}) {
				return val(op+" / CountBy", false, fmt.Sprintf("group %d: key %d with %d members, count entry %v", i, groups[i].Key, len(groups[i].Values), counts[i]), fmt.Sprintf("key %d with %d members", k, wantN))
			}
		}
		// members in original order: walk the input once with a cursor per group
		cur := make([]int, len(groups))
		pos := map[uint8]int{}
		for i, k := range keys {
			pos[k] = i
		}
		var at [256]int
		for v := range at {
			at[v] = pos[keyer(uint8(v))]
		}
		for i, v := range s {
			g := at[v]
			if groups[g].Values[cur[g]] != v {
				return val(op, false, fmt.Sprintf("member %d of group %d is %d", cur[g], g, groups[g].Values[cur[g]]), fmt.Sprintf("%d = s[%d]", v, i))
			}
			cur[g]++
		}
		if msg := intact(op); msg != "" {
			return msg
		}
		if msg := growGroups(op, desc, groups, 0xEE, func(a, b uint8) bool { return a == b }); msg != "" {
			return msg
		}
		if msg := intact(op); msg != "" {
			return "after appending to the groups: " + msg
		}
	}
	// Trim family: unwanted = the values at the two ends
	unw := myBytes{s[0], s[n-1]}
	isUnw := func(v uint8) bool { return v == s[0] || v == s[n-1] }
	lo, hi := 0, n
	for hi > 0 && isUnw(s[hi-1]) {
		hi--
	}
	lo2 := 0
	for lo2 < n && isUnw(s[lo2]) {
		lo2++
	}
	for lo < hi && isUnw(s[lo]) {
		lo++
	}
	sub := func(op string, got myBytes, lo, hi int) string {
		out.Evals++
		if len(got) != hi-lo || (len(got) > 0 && &got[0] != &s[lo]) {
			return fmt.Sprintf("%s (%s): %d elements, want the sub-slice s[%d:%d] of the argument", op, desc, len(got), lo, hi)
		}
		return ""
	}
	for _, r := range []struct {
		op     string
		got    myBytes
		lo, hi int
	}{
		{"Trim(s, [s[0] s[n-1]])", slices.Trim(s, unw), lo, hi}, {"TrimLeft(s, [s[0] s[n-1]])", slices.TrimLeft(s, unw), lo2, n}, {"TrimRight(s, [s[0] s[n-1]])", slices.TrimRight(s, unw), 0, hi},
		{"TrimFunc(s, v is s[0] or s[n-1])", slices.TrimFunc(s, isUnw), lo, hi}, {"TrimLeftFunc(s, v is s[0] or s[n-1])", slices.TrimLeftFunc(s, isUnw), lo2, n},
		{"TrimRightFunc(s, v is s[0] or s[n-1])", slices.TrimRightFunc(s, isUnw), 0, hi},
	} {
		if msg := sub(r.op, r.got, r.lo, r.hi); msg != "" {
			return msg
		}
	}
	// TryGet, SafeGet, SafeGetOr, Last
	for _, i := range []int{-1, 0, 1 << 22, n - 1, n, n + 1} {
		in := i >= 0 && i < n
		var w uint8
		if in {
			w = s[i]
		}
		if v, ok := slices.TryGet(s, i); ok != in || v != w {
			return val(fmt.Sprintf("TryGet(s, %d)", i), false, fmt.Sprint(v, ok), fmt.Sprint(w, in))
		}
		if v := slices.SafeGet(s, i); v != w {
			return val(fmt.Sprintf("SafeGet(s, %d)", i), false, v, w)
		}
		wo := w
		if !in {
			wo = 77
		}
		if v := slices.SafeGetOr(s, i, 77); v != wo {
			return val(fmt.Sprintf("SafeGetOr(s, %d, 77)", i), false, v, wo)
		}
		out.Evals += 3
	}
	if v := slices.Last(s); v != s[n-1] {
		return val("Last(s)", false, v, s[n-1])
	}
	return ""
}

var specLong = pbt.Register(&pbt.Spec[LCase]{
	Property: "C14", Name: "C14.long",
	Rule: "enumerated, single-byte elements over 2..8 distinct values arranged as in C14.big's large cases (pseudo-random, periodic, ascending blocks, descending blocks with a new value at the very end, all equal but one): " +
		"Fold and FoldReverse with a 1 MiB state ([2^17]int64) on 1100 elements and with a 512-byte state ([64]int64) on 2^20+1 and 2^21+1 elements (plus Map/MapErr to a 512-byte result on 2^17+1 elements); " +
		"then EVERY slice helper (Fold/FoldReverse with a 16-byte state recording 31*st+v and the number of calls, Map to uint8 and to struct{}, MapErr never failing and failing at call n-1, n/2 and 2^22+1, Filter, " +
		"Index/IndexFunc/Contains/ContainsFunc/Any/All for the value that first appears last, the first, 0, d-1 and an absent one, Distinct, DistinctFunc by v/2, Except/ExceptSet of {0, 2, 9}, " +
		"GroupBy/CountBy keyed by the value and by its parity with the groups' members checked against the input in one pass and then grown by appends (siblings re-read), the six Trim functions with the two end values unwanted " +
		"(result must be the sub-slice, by address), TryGet/SafeGet/SafeGetOr at -1, 0, 2^22, n-1, n, n+1, Last) on 2^22+1, 2^23+1 and 2^24+1 elements (the last one without the helpers that hash every element: Except, ExceptSet, GroupBy, CountBy; thorough: also 2^22-1, 2^22, 3*2^22+5, 2^24+1 and 2^25+1 with all helpers, 2^26+1 without the hashing ones), the 2^22+1 and 2^24+1 ones " +
		"while another goroutine flips runtime.GOMAXPROCS between 2 and 7 every 500 microseconds; the input is compared with a copy after every call that returns a slice and every returned slice is overwritten up to its capacity. " +
		"And the map helpers (Clone, Keys, Values, KeyOf, ContainsValue, HasKey) on a map uint32->uint8 of 2^20+1 entries (thorough: also 2^22+1, 2^23+1). A helper that recurses per element or per small chunk dies " +
		"with 'fatal error: stack overflow' (the goroutine stack limit is the default 1 GB), which the driver reports as a violation of the running case",
	Enum: func(shard, shards int, tier string, yield func(LCase) bool) {
		cases := []LCase{
			{N: 1100, D: 5, Kind: 0, State: "1MiB"},
			{N: 1<<20 + 1, D: 3, Kind: 1, State: "512B"},
			{N: 1<<23 + 1, D: 3, Kind: 0, State: "word"},
			{N: 1<<24 + 1, D: 7, Kind: 3, State: "cheap", Flip: true},
			{N: 1<<20 + 1, Map: true},
			{N: 1<<21 + 1, D: 2, Kind: 4, State: "512B"},
			{N: 1<<17 + 1, D: 4, Kind: 0, State: "512B", Flip: true},
			{N: 1<<22 + 1, D: 5, Kind: 2, State: "word", Flip: true},
		}
		if tier == "thorough" {
			cases = append(cases, LCase{N: 1<<22 - 1, D: 8, Kind: 1, State: "word"}, LCase{N: 1 << 22, D: 2, Kind: 4, State: "word", Flip: true}, LCase{N: 3<<22 + 5, D: 6, Kind: 2, State: "word"},
				LCase{N: 1<<24 + 1, D: 4, Kind: 0, State: "word"}, LCase{N: 1<<25 + 1, D: 4, Kind: 1, State: "word"}, LCase{N: 1<<26 + 1, D: 5, Kind: 3, State: "cheap", Flip: true}, LCase{N: 1<<22 + 1, Map: true, Flip: true}, LCase{N: 1<<23 + 1, Map: true},
				LCase{N: 2500, D: 3, Kind: 1, State: "1MiB", Flip: true}, LCase{N: 1<<22 + 1, D: 3, Kind: 2, State: "512B"})
		}
		for i, c := range cases {
			if i%shards == shard && !yield(c) {
				return
			}
		}
	},
	Run: RunLong, Exhaustive: true, Crashy: true, CaseCPU: 2 * time.Minute,
})

func TestC14Long(t *testing.T) { pbt.Check(t, specLong) }
