package c14

import (
	"fmt"

	"gopkg.in/typ.v4/slices"
)

// growGroups: the parts of ONE result must not share memory with each other either (every returned slice is new and can be
// modified freely). Every group's Values is, in turn, grown by appends (in place while its capacity lasts) and overwritten from
// its length up to its capacity; afterwards every group must still hold the members it had. On a result whose groups are
// separate allocations nothing that belongs to the result changes, so the result can be used (and kept) afterwards.
func growGroups[K comparable, V any](op, desc string, got []slices.Grouping[K, V], junk V, same func(a, b V) bool) string {
	snap := make([][]V, len(got))
	total := 0
	for i := range got {
		snap[i] = append([]V(nil), got[i].Values...)
		total += len(got[i].Values)
	}
	budget := 4*total + 1<<16 // bounds the work on results with astronomic capacities
	for i := range got {
		v := got[i].Values
		grown := append(v, junk) // writes v[len(v)] in place if the capacity allows
		grown = append(grown, junk, junk)
		_ = grown
		tail := v[len(v):cap(v)]
		if len(tail) > budget {
			keep := budget
			if keep < 8 {
				keep = 8
			}
			if keep < len(tail) {
				tail = tail[:keep]
			}
		}
		budget -= len(tail)
		for j := range tail {
			tail[j] = junk
		}
	}
	for i := range got {
		bad := len(got[i].Values) != len(snap[i])
		for j := 0; !bad && j < len(snap[i]); j++ {
			bad = !same(got[i].Values[j], snap[i][j])
		}
		if bad {
			at := 0
			for at < len(snap[i]) && at < len(got[i].Values) && same(got[i].Values[at], snap[i][at]) {
				at++
			}
			return fmt.Sprintf("%s (%s): after appending to the Values of every returned group in turn (and writing up to their capacity) group %d of %d (key %v, %d members) "+
				"has changed at member %d: the groups of one result share memory, so a returned slice cannot be modified freely", op, desc, i, len(got), got[i].Key, len(snap[i]), at)
		}
	}
	return ""
}

func sameInt(a, b int) bool { return a == b }
