package c14

import (
	"fmt"
	"runtime"
	"runtime/debug"
	"strconv"
	"testing"

	"gopkg.in/typ.v4/maps"
	"gopkg.in/typ.v4/slices"
	"verifharness/internal/pbt"
)

// C14.gap: two calls of one helper that have a key (value) in common, separated by exactly P-1, P and P+1 calls of the
// same helper on OTHER data, for P = 2^8, 2^12 and 2^16 (below: P = 2^16). C14.repeat repeats one call on one input: a scratch structure that the library keeps between
// calls and invalidates by a 16-bit generation stamp is re-stamped by every such call, so its wrap never shows there.
// Here call number i works on the four values
//   a = 1000+i%65535, b = 2000000+i%65536, c = 4000000+i%65537, d = i%5
// (a, b, c only while i%P < 100; the other calls use the small filler values 10+i%7, 100+i%11, 500+i%13 instead)
// so that the calls i and i+G (G = 65535, 65536, 65537) have exactly one of a, b, c in common and no call in between has seen it;
// the order of the values in the slice is rotated by (i>>16)%3, so whatever the earlier call remembered about the common value
// (its position, its group) is wrong for the later one. Every result is compared with the naive definition.

type GCase struct {
	P     int  `json:"p"`     // the period: 2^8, 2^12 or 2^16 (the gaps tried are P-1, P, P+1)
	Op    int  `json:"op"`    // index into gapOps; -1: every helper in every iteration
	N     int  `json:"n"`     // number of iterations
	Procs int  `json:"procs"` // > 0: runtime.GOMAXPROCS(Procs) during the case
	NoGC  bool `json:"nogc"`  // big heap: GOGC off with a memory limit of 192 MiB during the case, so collections are rare (pooled scratch data stays where it is for long)
}

var gapOps = []string{"GroupBy(int key)", "CountBy(int key)", "GroupBy(string key)", "CountBy(string key)", "GroupBy([2]int key)", "CountBy([2]int key)",
	"Distinct", "DistinctFunc", "Except", "ExceptSet", "Filter", "Map", "MapErr", "Index+Contains+ContainsFunc", "Trim", "Fold+FoldReverse", "maps.Clone+Keys+Values+KeyOf"}

// gapWitnesses: how many consecutive calls of every period use their big value (the other calls use small filler values: the number of
// different values seen over a whole series stays below 1000, so a scratch table that is dropped when it has grown too big stays in use).
const gapWitnesses = 100

func gapInput(i, p int, buf []int) myInts {
	w := gapWitnesses
	if w > p/2 {
		w = p / 2
	}
	x := [4]int{10 + i%7, 100 + i%11, 500 + i%13, i % 5}
	if i%(p-1) < w {
		x[0] = 1000 + i%(p-1)
	}
	if i%p < w {
		x[1] = 2000000 + i%p
	}
	if i%(p+1) < w {
		x[2] = 4000000 + i%(p+1)
	}
	r := (i / p) % 3
	y := [4]int{x[r%4], x[(r+1)%4], x[(r+2)%4], x[(r+3)%4]}
	buf = append(buf[:0], y[0], y[1], y[1], y[2], y[3], y[0], y[3], y[2], y[3])
	return buf
}

func gapStep(op, i int, s myInts, desc func() string) string {
	v := []int(s)
	switch op {
	case 0:
		return checkGroups(gapOps[op], desc(), len(v), slices.GroupBy(s, func(x int) int { return x }), groupsOf(v, func(x int) int { return x }))
	case 1:
		return checkCounts(gapOps[op], desc(), slices.CountBy(s, func(x int) int { return x }), groupsOf(v, func(x int) int { return x }))
	case 2:
		return checkGroups(gapOps[op], desc(), len(v), slices.GroupBy(s, strconv.Itoa), groupsOf(v, strconv.Itoa))
	case 3:
		return checkCounts(gapOps[op], desc(), slices.CountBy(s, strconv.Itoa), groupsOf(v, strconv.Itoa))
	case 4:
		k := func(x int) [2]int { return [2]int{x, -x} }
		return checkGroups(gapOps[op], desc(), len(v), slices.GroupBy(s, k), groupsOf(v, k))
	case 5:
		k := func(x int) [2]int { return [2]int{x, -x} }
		return checkCounts(gapOps[op], desc(), slices.CountBy(s, k), groupsOf(v, k))
	}
	// first appearances
	var first []int
	for _, x := range v {
		if !has(first, x) {
			first = append(first, x)
		}
	}
	cmp := func(name string, got, want []int) string {
		if !eqInts(got, want) {
			return fmt.Sprintf("%s (%s) = %v, want %v", name, desc(), got, want)
		}
		return ""
	}
	switch op {
	case 6:
		return cmp("Distinct(s)", slices.Distinct(s), first)
	case 7:
		return cmp("DistinctFunc(s, ==)", slices.DistinctFunc(s, func(a, b int) bool { return a == b }), first)
	case 8, 9:
		excl := myInts{v[1], v[4], -5}
		var want []int
		for _, x := range v {
			if !has(excl, x) {
				want = append(want, x)
			}
		}
		if op == 8 {
			return cmp(fmt.Sprintf("Except(s, %v)", excl), slices.Except(s, excl), want)
		}
		return cmp(fmt.Sprintf("ExceptSet(s, set of %v)", excl), slices.ExceptSet(s, maps.NewSetFromSlice(excl)), want)
	case 10:
		var want []int
		for _, x := range v {
			if x != v[0] {
				want = append(want, x)
			}
		}
		return cmp("Filter(s, v != s[0])", slices.Filter(s, func(x int) bool { return x != v[0] }), want)
	case 11:
		want := make([]int, len(v))
		for j, x := range v {
			want[j] = x*3 + 1
		}
		return cmp("Map(s, 3v+1)", slices.Map(s, func(x int) int { return x*3 + 1 }), want)
	case 12:
		want := make([]int, len(v))
		for j, x := range v {
			want[j] = x ^ i
		}
		got, err := slices.MapErr(s, func(x int) (int, error) { return x ^ i, nil })
		if err != nil {
			return fmt.Sprintf("MapErr(s, v^%d, never failing) (%s) returned the error %v", i, desc(), err)
		}
		return cmp("MapErr(s, v^i)", got, want)
	case 13:
		for _, p := range []int{v[0], v[3], v[4], v[8], i} {
			want := -1
			for j, x := range v {
				if x == p {
					want = j
					break
				}
			}
			if got := slices.Index(s, p); got != want {
				return fmt.Sprintf("Index(s, %d) (%s) = %d, want %d", p, desc(), got, want)
			}
			if got := slices.Contains(s, p); got != (want >= 0) {
				return fmt.Sprintf("Contains(s, %d) (%s) = %v, want %v", p, desc(), got, want >= 0)
			}
			if got := slices.ContainsFunc(s, p, func(a, b int) bool { return a == b }); got != (want >= 0) {
				return fmt.Sprintf("ContainsFunc(s, %d, ==) (%s) = %v, want %v", p, desc(), got, want >= 0)
			}
		}
	case 14:
		// s = y0 y1 y1 y2 y3 y0 y3 y2 y3: unwanted {y0, y3} leaves s[1:8]
		got := slices.Trim(s, myInts{v[0], v[4]})
		if !eqInts(got, v[1:8]) || &got[0] != &s[1] {
			return fmt.Sprintf("Trim(s, [%d %d]) (%s) = %v, want the sub-slice s[1:8] = %v", v[0], v[4], desc(), got, v[1:8])
		}
	case 15:
		wf, wr := i, i
		for j := range v {
			wf = wf*31 + v[j]
			wr = wr*31 + v[len(v)-1-j]
		}
		acc := func(st, x int) int { return st*31 + x }
		if got := slices.Fold(s, i, acc); got != wf {
			return fmt.Sprintf("Fold(s, %d, 31st+v) (%s) = %d, want %d", i, desc(), got, wf)
		}
		if got := slices.FoldReverse(s, i, acc); got != wr {
			return fmt.Sprintf("FoldReverse(s, %d, 31st+v) (%s) = %d, want %d", i, desc(), got, wr)
		}
	case 16:
		m := myMap{}
		for j, x := range v {
			m[x] = j // value -> last position
		}
		cl := maps.Clone(m)
		ks, vs := maps.Keys(m), maps.Values(m)
		if len(cl) != len(first) || len(ks) != len(first) || len(vs) != len(first) {
			return fmt.Sprintf("maps.Clone/Keys/Values of the map value->last position of s (%s): %d entries, %d keys, %d values, want %d each", desc(), len(cl), len(ks), len(vs), len(first))
		}
		for _, x := range first {
			last := 0
			for j := range v {
				if v[j] == x {
					last = j
				}
			}
			if g, ok := cl[x]; !ok || g != last || !has(ks, x) || !has(vs, last) || !maps.HasKey(m, x) {
				return fmt.Sprintf("maps.Clone/Keys/Values/HasKey of the map value->last position of s (%s): entry %d->%d is missing or wrong: clone %v, keys %v, values %v", desc(), x, last, sortedPairs(cl), ks, vs)
			}
			if k, ok := maps.KeyOf(m, last); !ok || k != x {
				return fmt.Sprintf("maps.KeyOf(map value->last position of s, %d) (%s) = %d, %v, want %d, true", last, desc(), k, ok, x)
			}
		}
		if maps.HasKey(m, -7) || maps.ContainsValue(m, 99) {
			return fmt.Sprintf("maps.HasKey(m, -7) / ContainsValue(m, 99) on the map value->last position of s (%s) is true", desc())
		}
	}
	return ""
}

func RunGap(c GCase) (out pbt.Outcome) {
	if c.Procs > 0 {
		procsMu.Lock()
		old := runtime.GOMAXPROCS(c.Procs)
		defer func() {
			runtime.GOMAXPROCS(old)
			procsMu.Unlock()
		}()
	}
	if c.NoGC {
		// a program with a big heap: the collector only runs when 192 MiB of garbage have piled up (a single-helper series never gets there)
		old := debug.SetGCPercent(-1)
		oldLimit := debug.SetMemoryLimit(192 << 20)
		defer func() {
			debug.SetMemoryLimit(oldLimit)
			debug.SetGCPercent(old)
			runtime.GC()
		}()
	}
	lo, hi := c.Op, c.Op+1
	if c.Op < 0 || c.Op >= len(gapOps) {
		lo, hi = 0, len(gapOps)
	}
	i, op := 0, lo
	p := c.P
	if p < 16 {
		p = 1 << 16
	}
	var s myInts
	desc := func() string {
		return fmt.Sprintf("call number %d of a series in which call i works on s_i = the values 1000+i%%%d, 2000000+i%%%d, 4000000+i%%%d (each only while i%%P < %d, else the fillers 10+i%%7, 100+i%%11, 500+i%%13), i%%5 arranged as y0 y1 y1 y2 y3 y0 y3 y2 y3 in an order rotated by (i/%d)%%3; "+
			"here s = %v; the calls %d, %d and %d before it were the last ones to see one of these values, in another position; GOMAXPROCS %d, big-heap setting (GOGC off, 192 MiB limit): %v", i, p-1, p, p+1, min(gapWitnesses, p/2), p, []int(s), p-1, p, p+1, runtime.GOMAXPROCS(0), c.NoGC)
	}
	defer func() {
		if r := recover(); r != nil {
			out = pbt.Fail("%s panicked: %v (%s)", gapOps[op], r, desc())
		}
	}()
	buf := make([]int, 0, 12)
	for i = 0; i < c.N; i++ {
		s = gapInput(i, p, buf)
		for op = lo; op < hi; op++ {
			if msg := gapStep(op, i, s, desc); msg != "" {
				return pbt.Fail("%s", msg)
			}
			out.Evals++
		}
		if i&4095 == 0 {
			if want := gapInput(i, p, nil); !eqInts(s, want) {
				return pbt.Fail("the input was modified: now %v, was %v (%s)", []int(s), []int(want), desc())
			}
		}
	}
	out.NonTrivial = c.N > p+1
	if hi-lo == 1 {
		out.Labels = append(out.Labels, "op:"+gapOps[lo])
	} else {
		out.Labels = append(out.Labels, "all-helpers-in-turn")
	}
	out.Labels = append(out.Labels, "period:2^"+strconv.Itoa(log2(p)))
	if c.N > 2*p+1 {
		out.Labels = append(out.Labels, "also-twice-the-period")
	}
	if c.NoGC {
		out.Labels = append(out.Labels, "big-heap-rare-collections")
	}
	out.Labels = append(out.Labels, "procs:"+strconv.Itoa(c.Procs))
	return out
}

var specGap = pbt.Register(&pbt.Spec[GCase]{
	Property: "C14", Name: "C14.gap",
	Rule: "enumerated, for every period P in {2^8, 2^12, 2^16}: a series of 2P+P/16+64 calls (P = 2^16 in quick: P+P/16+64; thorough: also 4P+300) of one helper in which call i works on the 9-element slice y0 y1 y1 y2 y3 y0 y3 y2 y3 over the values " +
		"1000+i%(P-1), 2000000+i%P, 4000000+i%(P+1) (each only in the first min(100, P/2) calls of its period; the other calls use the fillers 10+i%7, 100+i%11, 500+i%13: under 1000 different values per series), i%5 in an order rotated by (i/P)%3: the calls " +
		"i and i+G have exactly one of the big values in common for each gap G in {P-1, P, P+1} " +
		"(longer series: also 2P-2..2P+2), no call in between has seen it, and it stands at another position (another group, another count) in the later call. Helpers: GroupBy and CountBy with int, string and [2]int keys, " +
		"Distinct, DistinctFunc, Except, ExceptSet, Filter, Map, MapErr, Index+Contains+ContainsFunc, Trim, Fold+FoldReverse, maps.Clone+Keys+Values+KeyOf+HasKey+ContainsValue on the map value->last position; " +
		"every result of every call compared with the naive definition. One series per helper under GOMAXPROCS(1) with a big-heap setting (GOGC off, memory limit 192 MiB: no collection during the series, so scratch data pooled by the library stays where it is), " +
		"and two series that call all helpers in turn in every iteration: GOMAXPROCS(1) with the normal collector, default GOMAXPROCS with the big-heap setting (thorough: every helper and the all-helpers series in all four combinations)",
	Enum: func(shard, shards int, tier string, yield func(GCase) bool) {
		k := 0
		emit := func(c GCase) bool {
			k++
			if k%shards != shard {
				return true
			}
			return yield(c)
		}
		for _, p := range []int{1 << 8, 1 << 12, 1 << 16} {
			ns := []int{p + p/16 + 64}
			if tier == "thorough" || p < 1<<16 {
				ns = []int{2*p + p/16 + 64}
			}
			if tier == "thorough" && p == 1<<16 {
				ns = append(ns, 4*p+300)
			}
			for _, n := range ns {
				for op := -1; op < len(gapOps); op++ {
					if !emit(GCase{P: p, Op: op, N: n, Procs: 1, NoGC: op >= 0}) {
						return
					}
					if op < 0 && !emit(GCase{P: p, Op: op, N: n, NoGC: true}) {
						return
					}
					if tier == "thorough" {
						if !emit(GCase{P: p, Op: op, N: n, Procs: 1, NoGC: op < 0}) || (op >= 0 && !emit(GCase{P: p, Op: op, N: n, NoGC: true})) || !emit(GCase{P: p, Op: op, N: n}) {
							return
						}
					}
				}
			}
		}
	},
	Run: RunGap, Exhaustive: true, CaseCPU: 0,
})

func TestC14Gap(t *testing.T) { pbt.Check(t, specGap) }
