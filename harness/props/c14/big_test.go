package c14

import (
	"math"
	"testing"

	"pgregory.net/rapid"
	"verifharness/internal/pbt"
)

// C14.big: the same Run as C14.enum/C14.rand on long slices with many distinct values, so that every
// helper crosses the sizes at which an implementation may switch strategy (linear scan -> hash set,
// pre-sized result -> reallocation, ...).

// bigShapes are the arrangements of d distinct values 0..d-1 (every one of them puts repetitions of early
// AND of late first appearances behind further first appearances, or directly behind the last one).
var bigShapes = []string{"twice", "pairs", "lag", "palindrome", "random", "tail", "early-heavy"}

type lcg uint64

func (g *lcg) next(n int) int { // splitmix64
	*g += 0x9e3779b97f4a7c15
	z := uint64(*g)
	z = (z ^ (z >> 30)) * 0xbf58476d1ce4e5b9
	z = (z ^ (z >> 27)) * 0x94d049bb133111eb
	z ^= z >> 31
	return int(z % uint64(n))
}

func bigSlice(shape string, d int) []int {
	var s []int
	switch shape {
	case "twice": // 0..d-1, 0..d-1
		for r := 0; r < 2; r++ {
			for v := 0; v < d; v++ {
				s = append(s, v)
			}
		}
	case "pairs": // 0,0,1,1,...
		for v := 0; v < d; v++ {
			s = append(s, v, v)
		}
	case "lag": // 0,1,0,2,1,3,2,...: every value once more right after its successor's first appearance
		s = append(s, 0)
		for v := 1; v < d; v++ {
			s = append(s, v, v-1)
		}
		s = append(s, d-1)
	case "palindrome": // 0..d-1, d-1..0
		for v := 0; v < d; v++ {
			s = append(s, v)
		}
		for v := d - 1; v >= 0; v-- {
			s = append(s, v)
		}
	case "random": // 2d+3 draws from 0..d-1
		g := lcg(d)
		for i := 0; i < 2*d+3; i++ {
			s = append(s, g.next(d))
		}
	case "tail": // 0..d-1 followed by the last few first appearances again and the first one
		for v := 0; v < d; v++ {
			s = append(s, v)
		}
		for v := d - 1; v >= 0 && v >= d-3; v-- {
			s = append(s, v)
		}
		s = append(s, 0)
	case "early-heavy": // value 0 again after every 5 new values: one group keeps growing while new keys keep appearing
		for v := 0; v < d; v++ {
			s = append(s, v)
			if v%5 == 4 {
				s = append(s, 0, v/2)
			}
		}
		s = append(s, 0)
	}
	return s
}

// transform maps the small values onto other parts of the int range (injective).
func transform(s []int, mode int) {
	for i, v := range s {
		switch mode % 4 {
		case 1:
			s[i] = math.MaxInt - v
		case 2:
			s[i] = math.MinInt + v
		case 3:
			s[i] = v << 32
		}
	}
}

// bigCase assembles a case around a slice with d distinct values: m is the modulus (d+1: every value its own
// key/class; smaller: classes with several distinct members), the exclude/unwanted list holds every third
// value plus the slice's two end values.
func bigCase(s []int, d, m, mode, k int) Case {
	n := len(s)
	set := []int{}
	for v := 0; v < d; v += 3 {
		set = append(set, v)
	}
	if n > 0 && k%2 == 0 {
		set = append(set, s[n-1], s[0])
	}
	transform(s, mode)
	transform(set, mode)
	c := Case{S: s, Spare: k % 4, M: m, R: 1 % m, C: d / 2, Seed: k%5 - 2, Set: set, Fallback: 7}
	if mode%4 == 1 {
		c.C = math.MaxInt - d/2
	} else if mode%4 == 2 {
		c.C = math.MinInt + d/2
	} else if mode%4 == 3 {
		c.C = (d / 2) << 32
	}
	switch k % 3 {
	case 0:
		c.J = n // never fails
	case 1:
		c.J = n - 1
	case 2:
		c.J = n / 2
	}
	if k%4 == 3 {
		c.Nest = 1 + k%(n+2)
	}
	if k%8 == (k/8)%8 { // changing GOMAXPROCS stops the world twice: one case in eight (spread over the shards)
		c.Procs = procsList[(k/8)%len(procsList)]
	}
	return c
}

// procsList: the GOMAXPROCS settings tried (the box has 16 cores; 0 = leave it alone).
var procsList = []int{1, 2, 3, 5, 6, 7}

// largeSlice: n elements over d distinct values. kind 0: pseudo-random; 1: periodic (i%d); 2: ascending blocks (every value first
// appears at a different distance from the start, the last ones late: a chunked implementation meets new keys in every chunk);
// 3: descending blocks with value 0 once at the very end; 4: all equal except one other value at a pseudo-random position.
func largeSlice(n, d, kind int) []int {
	s := make([]int, n)
	g := lcg(n + d)
	for i := range s {
		switch kind % 5 {
		case 0:
			s[i] = g.next(d)
		case 1:
			s[i] = i % d
		case 2:
			s[i] = int(int64(i) * int64(d) / int64(n))
		case 3:
			s[i] = d - 1 - int(int64(i)*int64(d-1)/int64(n))
		case 4:
			s[i] = d - 1
		}
	}
	switch kind % 5 {
	case 3:
		s[n-1] = 0
	case 4:
		s[g.next(n)] = 0
	}
	return s
}

// enumLarge: lengths around 2^14, 2^15, 2^16 and 2^17 with few distinct values (the helpers that compare every element with
// every distinct value stay affordable), each with another GOMAXPROCS; and short slices with more than 1 MiB of unused capacity.
func enumLarge(tier string, emit func(Case) bool) bool {
	ns := []int{1<<14 - 1, 1 << 14, 1<<14 + 1, 1<<15 - 1, 1 << 15, 1<<15 + 1, 1<<16 - 1, 1 << 16, 1<<16 + 1, 1<<17 + 1}
	ds := []int{3, 40, 300, 7}
	if tier == "thorough" {
		ns = append(ns, 1<<17-1, 1<<18+1, 3<<15, 5<<14+1)
		ds = append(ds, 1025, 2, 4097)
	}
	k := 0
	for i, n := range ns {
		reps := 1
		if tier == "thorough" {
			reps = 4
		}
		for r := 0; r < reps; r++ {
			k++
			d := ds[(i+r*3)%len(ds)]
			m := d + 1
			if k%3 == 1 {
				m = 2
			}
			c := bigCase(largeSlice(n, d, k), d, m, k/2, 4*k) // 4k: no nested calls, J = n (k%3==0), n-1 or n/2
			c.Procs = append(procsList, 0, 4, 16)[k%(len(procsList)+3)]
			if !emit(c) {
				return false
			}
		}
	}
	// every GOMAXPROCS setting against a length just above each of 2^14, 2^15 and 2^16 (thorough: against every length), few distinct values
	bands := []int{1<<14 + 1, 1<<15 + 1, 1<<16 + 1}
	if tier == "thorough" {
		bands = ns
	}
	for _, procs := range append(procsList, 4, 16) {
		if tier != "thorough" && (procs == 4 || procs == 16) {
			continue
		}
		for _, n := range bands {
			k++
			d := []int{3, 7, 5}[k%3]
			c := bigCase(largeSlice(n+k%3, d, k), d, []int{d + 1, 2}[k%2], k/2, 4*k)
			c.Procs = procs
			if !emit(c) {
				return false
			}
		}
	}
	// GOMAXPROCS changing WHILE the calls run (another goroutine flips it between 2 and 7)
	for i, n := range bands {
		if tier == "thorough" || i < 3 {
			k++
			d := []int{7, 3, 40}[k%3]
			c := bigCase(largeSlice(n+1+k%2, d, k), d, []int{d + 1, 2}[k%2], k/2, 4*k)
			c.Procs, c.Flip = 0, true
			if !emit(c) {
				return false
			}
		}
	}
	// huge unused capacity (poisoned, compared after every call)
	for i, spare := range []int{1<<17 + 1, 1 << 18, 1<<20 + 3} {
		for _, d := range []int{0, 1, 9, 70} {
			k++
			var s []int
			if d > 0 {
				s = bigSlice(bigShapes[(i+d)%len(bigShapes)], d)
			}
			c := bigCase(s, d+1, d/2+1, k/2, 4*k+1)
			c.Spare, c.Procs = spare, 0
			if !emit(c) {
				return false
			}
		}
		if tier != "thorough" {
			break
		}
	}
	return true
}

// bigDs: the numbers of distinct values tried around every power of two.
func bigDs(tier string) (full, reduced []int) {
	fullTo, redTo := 256, 4096
	if tier == "thorough" {
		fullTo, redTo = 2048, 8192
	}
	for p := 8; p <= redTo; p *= 2 {
		if p <= fullTo {
			full = append(full, p-1, p, p+1, p+p/2)
		} else {
			reduced = append(reduced, p+1)
		}
	}
	return
}

func enumBig(shard, shards int, tier string, yield func(Case) bool) {
	full, reduced := bigDs(tier)
	k := 0
	emit := func(shape string, d, m int) bool {
		k++
		if k%shards != shard {
			return true
		}
		return yield(bigCase(bigSlice(shape, d), d, m, k/2, k))
	}
	for _, d := range full {
		for _, shape := range bigShapes {
			if !emit(shape, d, d+1) || !emit(shape, d, d/2+1) {
				return
			}
		}
		if !emit("random", d, 3) || !emit("lag", d, 2) { // few keys/classes: groups with very many members
			return
		}
	}
	for _, d := range reduced {
		for _, shape := range []string{"twice", "random", "early-heavy"} {
			if !emit(shape, d, d+1) {
				return
			}
		}
		if !emit("lag", d, d/2+2) || !emit("random", d, 3) {
			return
		}
	}
	j := 0
	enumLarge(tier, func(c Case) bool {
		j++
		if j%shards != shard {
			return true
		}
		return yield(c)
	})
}

func genBig(t *rapid.T) Case {
	p := rapid.SampledFrom([]int{8, 16, 32, 64, 128, 256}).Draw(t, "pow2")
	d := p + rapid.IntRange(-2, p/2).Draw(t, "dOffset")
	n := d + rapid.IntRange(1, d+8).Draw(t, "extra")
	s := rapid.SliceOfN(rapid.IntRange(0, d-1), n, n).Draw(t, "s")
	// make sure that many distinct values are present: the first d/2.. positions may be overwritten by an ascending run
	run := rapid.IntRange(0, d).Draw(t, "run")
	for i := 0; i < run && i < n; i++ {
		s[i] = i
	}
	m := d + 1
	switch rapid.IntRange(0, 2).Draw(t, "mKind") {
	case 1:
		m = d/2 + 1
	case 2:
		m = rapid.IntRange(1, d+1).Draw(t, "m")
	}
	k := rapid.IntRange(0, 59).Draw(t, "k")
	return bigCase(s, d, m, rapid.IntRange(0, 3).Draw(t, "transform"), k)
}

var specBig = pbt.Register(&pbt.Spec[Case]{
	Property: "C14", Name: "C14.big",
	Rule: "long slices with d distinct values. Enumerated: d in {p-1, p, p+1, 1.5p} for every power of two p in 8..256 (thorough: ..2048) and d = p+1 for " +
		"p up to 4096 (thorough: 8192) x arrangements (0..d-1 twice; every value doubled; every value repeated right after its successor's first appearance; " +
		"ascending then descending; 2d+3 pseudo-random draws; 0..d-1 followed by the last three values and the first one; one value recurring after every five new ones) " +
		"x modulus m in {d+1 (every value its own key/class), d/2+1 (keys with several distinct members)}, plus m = 3 and 2 (few groups with very many members); values as they are, MaxInt-v, MinInt+v or v<<32 in turn; " +
		"exclude/unwanted list = every third value (+ the slice's end values); j in {n, n-1, n/2}; one case in four with nested calls. " +
		"Then lengths 2^14-1, 2^14, 2^14+1, 2^15-1, 2^15, 2^15+1, 2^16-1, 2^16, 2^16+1, 2^17+1 (thorough: also 2^17-1, 2^18+1, 3*2^15, 5*2^14+1, four cases each) with 3, 7, 40 or 300 (thorough: also 2, 1025, 4097) distinct values " +
		"arranged pseudo-randomly, periodically, in ascending blocks (new values keep appearing up to the end), in descending blocks with a new value at the very end, or all equal but one, " +
		"each of these under another GOMAXPROCS (1, 2, 3, 5, 6, 7, 4, 16 or the default); then every GOMAXPROCS in {1, 2, 3, 5, 6, 7} against a length of 2^14+1.., 2^15+1.. and 2^16+1..(+0..2) with 3, 5 or 7 distinct values " +
		"(thorough: {1, 2, 3, 4, 5, 6, 7, 16} against every length); then the same lengths (+1..2) once more while another goroutine flips GOMAXPROCS between 2 and 7 every 500 microseconds; " +
		"and slices of 0, 2, 18 and 140 elements with 2^17+1 (thorough: also 2^18, 2^20+3) elements of poisoned unused capacity. One case in eight (every large one) runs under " +
		"runtime.GOMAXPROCS(1, 2, 3, 5, 6 or 7; large ones also 4 and 16) instead of the box's 16. " +
		"rapid: p drawn from 8..256, d in p-2..1.5p, n in d+1..2d+8 random values below d with an ascending prefix of random length, m in {d+1, d/2+1, random}, same transforms. " + sliceRule,
	Enum: enumBig, Gen: genBig, Run: Run, Quick: 100, Thorough: 3000, CaseCPU: 0, Replicas: 4, ReplicaEvery: 16, // quick: four shards
})

func TestC14Big(t *testing.T) { pbt.Check(t, specBig) }
