// Package c14 decides C14: the functional slice helpers of slices/slices.go and the
// map helpers of maps/maps.go return what their straightforward definitions give,
// leave their inputs alone and (apart from the Trim family) return fresh memory.
package c14

import (
	"errors"
	"fmt"
	"math"
	"runtime"
	"strconv"
	"sync"
	"testing"

	"gopkg.in/typ.v4/maps"
	"gopkg.in/typ.v4/slices"
	"pgregory.net/rapid"
	"verifharness/internal/pbt"
)

// Case is one slice scenario. Every helper of the slice half of C14 is run on it.
type Case struct {
	S        []int `json:"s"`        // the slice, values 0..5
	Spare    int   `json:"spare"`    // poisoned spare capacity behind the slice
	Nil      bool  `json:"nil"`      // pass a nil slice when len(S)==0
	M        int   `json:"m"`        // modulus (>=1) of the predicate v%M==R, the keyer v%M and the equality a%M==b%M
	R        int   `json:"r"`        // residue, reduced modulo M
	C        int   `json:"c"`        // threshold of the predicate v<C and of the keyer v<C
	Seed     int   `json:"seed"`     // fold seed
	J        int   `json:"j"`        // MapErr: the conversion fails on its J-th call (0-based) and on every later one; J>=len(S): never
	Set      []int `json:"set"`      // unwanted values (Trim family) / values to exclude (Except, ExceptSet)
	Fallback int   `json:"fallback"` // SafeGetOr fallback
	// Nest > 0: while the outer helper is running, its callback calls a bundle of helpers on another slice
	// (re-entrancy): on the callback invocations number Nest-1, Nest-1+(n+2), Nest-1+2(n+2), ... counted over the whole case
	Nest int `json:"nest,omitempty"`
	// Procs > 0: the case runs with runtime.GOMAXPROCS(Procs) (chunked/parallel fast paths depend on it)
	Procs int `json:"procs,omitempty"`
	// Flip: while the case runs another goroutine keeps changing runtime.GOMAXPROCS between 2 and 7 (Procs is ignored)
	Flip bool `json:"flip,omitempty"`
}

// procsMu serialises the cases that change GOMAXPROCS (parallel copies of a case must not restore each other's setting).
var procsMu sync.Mutex

type myInts []int

const (
	poison    = -99   // content of the spare capacity
	scribble  = -7777 // written over every element of a returned slice
	loUniv    = -1    // values probed by Index/Contains
	hiUniv    = 6
	sliceRule = "case = (int slice with poisoned spare capacity, modulus m, residue r, threshold c, fold seed, " +
		"MapErr failing call j, unwanted/exclude list, fallback, nest); every slice helper named in C14 is run on each case and compared " +
		"with a naive loop (Index/Contains/ContainsFunc probe -1..6, the first, middle and last element, min-1 and max+1; TryGet/SafeGet/SafeGetOr " +
		"probe indices -2..n+1 (a selection when n>64) and MinInt/MaxInt); after every call - and from inside every callback " +
		"(every call when the backing array has at most 64 elements, sampled otherwise) - the full-capacity snapshot of every argument must be unchanged, and " +
		"every returned slice is overwritten up to its full capacity and the snapshot compared again (Trim family instead: result must " +
		"be the sub-slice s[lo:hi] of the argument, by address; GroupBy: before that every group's Values is grown by appends and written up to its capacity, one group after the other, and all groups are re-read - the parts of one result must not share memory either); Except and the Trim family are also called with the slice itself and with a sub-slice s[a:b] of it as their second argument; nest>0: callbacks re-enter the library (Fold, FoldReverse, Map, MapErr, Filter, Any, All, " +
		"Index, Distinct, DistinctFunc, GroupBy, CountBy, Except, Trim on a second slice, results checked) while the outer helper is running; " +
		"procs>0: the whole case runs under runtime.GOMAXPROCS(procs); flip: another goroutine changes GOMAXPROCS between 2 and 7 every 500 microseconds while the case runs; one case in 16 (C14.enum: 32) is run again as four parallel independent copies; " +
		"non-trivial = at least 3 elements, a duplicate value and at least 2 distinct values"
)

func eqInts(a, b []int) bool {
	if len(a) != len(b) {
		return false
	}
	for i := range a {
		if a[i] != b[i] {
			return false
		}
	}
	return true
}

// show prints a slice, abbreviated when it is long (the full case is in the replay file).
func show(a []int) string {
	if len(a) <= 40 {
		return fmt.Sprint(a)
	}
	return fmt.Sprintf("(len %d)%v...%v", len(a), a[:16], a[len(a)-4:])
}

// diffAt names the first difference of two long slices.
func diffAt(got, want []int) string {
	if len(got) <= 40 && len(want) <= 40 {
		return ""
	}
	for i := 0; i < len(got) && i < len(want); i++ {
		if got[i] != want[i] {
			return fmt.Sprintf(" (lengths %d/%d; first difference at index %d: got %d, want %d)", len(got), len(want), i, got[i], want[i])
		}
	}
	return fmt.Sprintf(" (lengths %d/%d; equal up to the shorter length)", len(got), len(want))
}

func has(list []int, v int) bool {
	for _, x := range list {
		if x == v {
			return true
		}
	}
	return false
}

type callErr struct{ call int }

func (e *callErr) Error() string { return "conversion failed at call " + strconv.Itoa(e.call) }

type pred struct {
	name string
	f    func(int) bool
}

// groupsOf is the definition of GroupBy: one group per key, groups in the order in which their key first
// appears, members in their original order.
func groupsOf[K comparable](s []int, keyer func(int) K) []slices.Grouping[K, int] {
	var gs []slices.Grouping[K, int]
	for _, v := range s {
		k, at := keyer(v), -1
		for i := range gs {
			if gs[i].Key == k {
				at = i
			}
		}
		if at < 0 {
			gs = append(gs, slices.Grouping[K, int]{Key: k})
			at = len(gs) - 1
		}
		gs[at].Values = append(gs[at].Values, v)
	}
	return gs
}

// The first line of these messages depends on the case only (rapid shrinks by re-running and insists on an
// identical message); what the library returned - possibly in map-iteration order - follows on the second line.
func checkGroups[K comparable](op, desc string, n int, got, want []slices.Grouping[K, int]) string {
	detail := ""
	if len(got) != len(want) {
		detail = fmt.Sprintf("%d groups, want %d", len(got), len(want))
	} else {
		total := 0
		for i, g := range got {
			if g.Key != want[i].Key {
				detail = fmt.Sprintf("group %d has key %v, want %v", i, g.Key, want[i].Key)
				break
			}
			if !eqInts(g.Values, want[i].Values) {
				detail = fmt.Sprintf("group %d (key %v) has members %s, want %s", i, g.Key, show(g.Values), show(want[i].Values))
				break
			}
			total += len(g.Values)
		}
		if detail == "" && total != n {
			detail = fmt.Sprintf("group sizes sum to %d", total)
		}
	}
	if detail == "" {
		return ""
	}
	return fmt.Sprintf("%s (%s) differs from its definition (groups in first-appearance order of their key, members in original order, sizes summing to %d): want %s\ngot %s: %s",
		op, desc, n, showAny(want, n), showAny(got, n), detail)
}

// showAny prints v unless the case is large (the full case is in the replay file).
func showAny(v any, n int) string {
	if n <= 40 {
		return fmt.Sprint(v)
	}
	return "(large, see the detail that follows)"
}

func checkCounts[K comparable](op, desc string, got []slices.Counting[K], want []slices.Grouping[K, int]) string {
	detail := ""
	if len(got) != len(want) {
		detail = fmt.Sprintf("%d entries, want %d", len(got), len(want))
	} else {
		for i := range got {
			if w := (slices.Counting[K]{Key: want[i].Key, Count: len(want[i].Values)}); got[i] != w {
				detail = fmt.Sprintf("entry %d is %v, want %v", i, got[i], w)
				break
			}
		}
	}
	if detail == "" {
		return ""
	}
	wantC := make([]slices.Counting[K], len(want))
	for i, g := range want {
		wantC[i] = slices.Counting[K]{Key: g.Key, Count: len(g.Values)}
	}
	return fmt.Sprintf("%s (%s) differs from its definition (one entry per key in first-appearance order): want %s\ngot %s: %s",
		op, desc, showAny(wantC, len(wantC)), showAny(got, len(got)), detail)
}

// Run executes every slice helper on the case.
func Run(c Case) pbt.Outcome { return runCase(c, nil) }

// runCase: alloc (optional) provides the memory of the two arguments (the slice with its spare capacity, the unwanted/exclude list);
// C14.guard places them next to inaccessible pages.
func runCase(c Case, alloc func(n int) myInts) pbt.Outcome {
	if c.Flip {
		stop := flipProcs()
		defer stop()
	} else if c.Procs > 0 {
		procsMu.Lock()
		old := runtime.GOMAXPROCS(c.Procs)
		defer func() {
			runtime.GOMAXPROCS(old)
			procsMu.Unlock()
		}()
	}
	n := len(c.S)
	m := c.M
	if m < 1 {
		m = 1
	}
	r := ((c.R % m) + m) % m
	spare := c.Spare
	if spare < 0 {
		spare = 0
	}
	var back, s myInts
	if n == 0 && c.Nil {
		back, s = nil, nil
	} else {
		if alloc != nil {
			back = alloc(n + spare)
		} else {
			back = make(myInts, n+spare)
		}
		copy(back, c.S)
		for i := n; i < len(back); i++ {
			back[i] = poison
		}
		s = back[:n:len(back)]
	}
	snap := append([]int(nil), back...)
	orig := append([]int(nil), c.S...)
	set := append(myInts(nil), c.Set...)
	if alloc != nil && len(c.Set) > 0 {
		set = alloc(len(c.Set))
		copy(set, c.Set)
	}
	setSnap := append([]int(nil), c.Set...)
	desc := fmt.Sprintf("s=%s spare=%d", show(orig), len(back)-n)
	setDesc := show(setSnap)

	out := pbt.Outcome{}
	// intact: no argument (slice incl. its spare capacity, unwanted/exclude list) was modified
	var during string
	intact := func(op string) string {
		if during != "" {
			return op + ": " + during
		}
		for i := range back {
			if back[i] != snap[i] {
				return fmt.Sprintf("%s modified its input (%s): backing array now %s, was %s (index %d: now %d, was %d)", op, desc, show(back), show(snap), i, back[i], snap[i])
			}
		}
		if len(set) != len(setSnap) {
			return fmt.Sprintf("%s changed the length of its second argument: %s, was %s", op, show(set), setDesc)
		}
		for i := range set {
			if set[i] != setSnap[i] {
				return fmt.Sprintf("%s modified its second argument: now %s, was %s", op, show(set), setDesc)
			}
		}
		return ""
	}
	// fresh: the returned slice can be overwritten without affecting the input
	// (up to its full capacity: the caller may append to it)
	fresh := func(op string, res []int) string {
		res = res[:cap(res)]
		for i := range res {
			res[i] = scribble
		}
		if m := intact(op); m != "" {
			return "after overwriting the result of " + op + ": result shares memory with the input: " + m
		}
		return ""
	}
	// checkNew: result equals want, input intact, result is new memory
	checkNew := func(op string, got, want []int) string {
		out.Evals++
		if !eqInts(got, want) {
			return fmt.Sprintf("%s (%s) = %s, want %s%s", op, desc, show(got), show(want), diffAt(got, want))
		}
		if m := intact(op); m != "" {
			return m
		}
		return fresh(op, got)
	}
	// checkSub: result is exactly the sub-slice s[lo:hi]
	checkSub := func(op string, got myInts, lo, hi int) string {
		out.Evals++
		if !eqInts(got, orig[lo:hi]) {
			return fmt.Sprintf("%s (%s) = %s, want s[%d:%d] = %s", op, desc, show(got), lo, hi, show(orig[lo:hi]))
		}
		if m := intact(op); m != "" {
			return m
		}
		if len(got) > 0 && &got[0] != &s[lo] {
			return fmt.Sprintf("%s (%s): result %s is not a sub-slice of its argument (different memory)", op, desc, show(got))
		}
		return ""
	}
	// lazyVal is checkVal for the hot loops: nothing is formatted unless something is wrong
	lazyVal := func(ok bool, got, want any, format string, a ...any) string {
		out.Evals++
		if ok && during == "" && len(set) == len(setSnap) {
			same := true
			for i := range back {
				if back[i] != snap[i] {
					same = false
					break
				}
			}
			for i := range set {
				if set[i] != setSnap[i] {
					same = false
					break
				}
			}
			if same {
				return ""
			}
		}
		op := fmt.Sprintf(format, a...)
		if !ok {
			return fmt.Sprintf("%s (%s) = %v, want %v", op, desc, got, want)
		}
		return intact(op)
	}
	checkVal := func(op string, ok bool, got, want any) string {
		out.Evals++
		if !ok {
			return fmt.Sprintf("%s (%s) = %v, want %v", op, desc, got, want)
		}
		return intact(op)
	}

	// observe is called at the start of every callback the harness hands to the library: the input must be
	// unmodified not only after a call but also DURING it (a callback, or another goroutine, may look at it)
	// (on every call for backing arrays of at most 64 elements, on every len(back)-th call otherwise). With Nest>0 the
	// callback also re-enters the library.
	obsCalls, inNested := 0, false
	var nested func()
	observe := func() {
		if inNested {
			return
		}
		obsCalls++
		if c.Nest > 0 && obsCalls >= c.Nest && (obsCalls-c.Nest)%(n+2) == 0 {
			inNested = true
			nested()
			inNested = false
		}
		if during != "" || (len(back) > 64 && obsCalls%len(back) != 0) {
			return
		}
		for i := range back {
			if back[i] != snap[i] {
				during = fmt.Sprintf("the input was modified while the helper was running (seen from inside a callback): backing array %s, was %s", show(back), show(snap))
				return
			}
		}
	}
	if c.Nest > 0 {
		nested = newNested(orig, c.Nest, &during)
	}
	preds := []pred{
		{fmt.Sprintf("v%%%d==%d", m, r), func(v int) bool { observe(); return v%m == r }},
		{fmt.Sprintf("v<%d", c.C), func(v int) bool { observe(); return v < c.C }},
	}
	eqMod := func(a, b int) bool { observe(); return a%m == b%m }

	// ---- Fold / FoldReverse: order-sensitive accumulators, State != E for the string one
	{
		accI := func(st, v int) int { observe(); return st*31 + v }
		// the string state keeps its last 64 bytes only (long slices: no quadratic memory); still order-sensitive
		pureS := func(st string, v int) string {
			st += strconv.Itoa(v)
			if len(st) > 64 {
				st = st[len(st)-64:]
			}
			return st
		}
		accS := func(st string, v int) string { observe(); return pureS(st, v) }
		wantI, wantS := c.Seed, "<"
		for i := 0; i < n; i++ {
			wantI = wantI*31 + orig[i]
			wantS = pureS(wantS, orig[i])
		}
		gotI := slices.Fold(s, c.Seed, accI)
		if msg := checkVal("Fold(s, seed="+strconv.Itoa(c.Seed)+", st*31+v)", gotI == wantI, gotI, wantI); msg != "" {
			return pbt.Fail("%s", msg)
		}
		gotS := slices.Fold(s, "<", accS)
		if msg := checkVal(`Fold(s, "<", last64(st+str(v)))`, gotS == wantS, gotS, wantS); msg != "" {
			return pbt.Fail("%s", msg)
		}
		wantI, wantS = c.Seed, "<"
		for i := n - 1; i >= 0; i-- {
			wantI = wantI*31 + orig[i]
			wantS = pureS(wantS, orig[i])
		}
		gotI = slices.FoldReverse(s, c.Seed, accI)
		if msg := checkVal("FoldReverse(s, seed="+strconv.Itoa(c.Seed)+", st*31+v)", gotI == wantI, gotI, wantI); msg != "" {
			return pbt.Fail("%s", msg)
		}
		gotS = slices.FoldReverse(s, "<", accS)
		if msg := checkVal(`FoldReverse(s, "<", last64(st+str(v)))`, gotS == wantS, gotS, wantS); msg != "" {
			return pbt.Fail("%s", msg)
		}
	}

	// ---- Map
	{
		conv := func(v int) int { observe(); return v*10 + 3 }
		want := make([]int, n)
		for i := range orig {
			want[i] = conv(orig[i])
		}
		got := slices.Map(s, conv)
		if msg := checkNew("Map(s, v*10+3)", got, want); msg != "" {
			return pbt.Fail("%s", msg)
		}
		gotS := slices.Map(s, func(v int) string { observe(); return "#" + strconv.Itoa(v) })
		out.Evals++
		if len(gotS) != n {
			return pbt.Fail("Map(s, \"#\"+str(v)) (%s): result has length %d, want %d", desc, len(gotS), n)
		}
		for i := range gotS {
			if gotS[i] != "#"+strconv.Itoa(orig[i]) {
				return pbt.Fail("Map(s, \"#\"+str(v)) (%s): element %d of the result is %q, want %q", desc, i, gotS[i], "#"+strconv.Itoa(orig[i]))
			}
		}
		if msg := intact("Map(s, \"#\"+str(v))"); msg != "" {
			return pbt.Fail("%s", msg)
		}
	}

	// ---- MapErr: conversion fails on call J and on every later call, each call with its own error value
	{
		calls := 0
		errs := make([]*callErr, n+1)
		for i := range errs {
			errs[i] = &callErr{i}
		}
		conv := func(v int) (int, error) {
			observe()
			k := calls
			calls++
			if k >= c.J && c.J >= 0 {
				if k < len(errs) {
					return v * 2, errs[k]
				}
				return v * 2, errors.New("conversion called more often than the slice has elements")
			}
			return v*10 + 3, nil
		}
		got, err := slices.MapErr(s, conv)
		out.Evals++
		op := fmt.Sprintf("MapErr(s, conv failing from call %d on)", c.J)
		if c.J >= 0 && c.J < n {
			if err == nil {
				return pbt.Fail("%s (%s): returned no error (result %s), want the error of call %d", op, desc, show(got), c.J)
			}
			if err != error(errs[c.J]) {
				return pbt.Fail("%s (%s): returned error %q, want the first error %q", op, desc, err, errs[c.J])
			}
			if len(got) != 0 {
				return pbt.Fail("%s (%s): returned result %s together with error %q, want no result", op, desc, show(got), err)
			}
			if calls != c.J+1 {
				return pbt.Fail("%s (%s): conversion was invoked %d times, want %d (stop at the first error)", op, desc, calls, c.J+1)
			}
			if msg := intact(op); msg != "" {
				return pbt.Fail("%s", msg)
			}
		} else {
			if err != nil {
				return pbt.Fail("%s (%s): returned error %q, want none", op, desc, err)
			}
			want := make([]int, n)
			for i := range orig {
				want[i] = orig[i]*10 + 3
			}
			out.Evals--
			if msg := checkNew(op, got, want); msg != "" {
				return pbt.Fail("%s", msg)
			}
			if calls != n {
				return pbt.Fail("%s (%s): conversion was invoked %d times, want %d", op, desc, calls, n)
			}
		}
	}

	// ---- predicate helpers: Filter, Any, All, IndexFunc, Trim*Func
	anyTrue, allTrue := false, false
	for _, p := range preds {
		var want []int
		wAny, wAll, wIdx := false, true, -1
		for i, v := range orig {
			if p.f(v) {
				want = append(want, v)
				wAny = true
				if wIdx < 0 {
					wIdx = i
				}
			} else {
				wAll = false
			}
		}
		if wAny && !wAll {
			anyTrue = true
		}
		if wAll && n > 0 {
			allTrue = true
		}
		var got myInts = slices.Filter(s, p.f)
		if msg := checkNew("Filter(s, "+p.name+")", got, want); msg != "" {
			return pbt.Fail("%s", msg)
		}
		gAny := slices.Any(s, p.f)
		if msg := checkVal("Any(s, "+p.name+")", gAny == wAny, gAny, wAny); msg != "" {
			return pbt.Fail("%s", msg)
		}
		gAll := slices.All(s, p.f)
		if msg := checkVal("All(s, "+p.name+")", gAll == wAll, gAll, wAll); msg != "" {
			return pbt.Fail("%s", msg)
		}
		gIdx := slices.IndexFunc(s, p.f)
		if msg := checkVal("IndexFunc(s, "+p.name+")", gIdx == wIdx, gIdx, wIdx); msg != "" {
			return pbt.Fail("%s", msg)
		}
		lo, hi := 0, n
		for hi > 0 && p.f(orig[hi-1]) {
			hi--
		}
		for lo < hi && p.f(orig[lo]) {
			lo++
		}
		lo2 := 0 // TrimLeft alone
		for lo2 < n && p.f(orig[lo2]) {
			lo2++
		}
		if msg := checkSub("TrimFunc(s, unwanted: "+p.name+")", slices.TrimFunc(s, p.f), lo, hi); msg != "" {
			return pbt.Fail("%s", msg)
		}
		if msg := checkSub("TrimLeftFunc(s, unwanted: "+p.name+")", slices.TrimLeftFunc(s, p.f), lo2, n); msg != "" {
			return pbt.Fail("%s", msg)
		}
		if msg := checkSub("TrimRightFunc(s, unwanted: "+p.name+")", slices.TrimRightFunc(s, p.f), 0, hi); msg != "" {
			return pbt.Fail("%s", msg)
		}
	}

	// ---- Index, Contains, ContainsFunc over the probe universe
	var probes []int
	for v := loUniv; v <= hiUniv; v++ {
		probes = append(probes, v)
	}
	if n > 0 {
		lo, hi := orig[0], orig[0]
		for _, x := range orig {
			if x < lo {
				lo = x
			}
			if x > hi {
				hi = x
			}
		}
		for _, v := range []int{orig[0], orig[n/2], orig[n-1], lo - 1, hi + 1} { // lo-1 / hi+1 may wrap around: still valid probes
			if !has(probes, v) {
				probes = append(probes, v)
			}
		}
	}
	for _, v := range probes {
		wIdx, wModIdx := -1, -1
		for i, x := range orig {
			if x == v && wIdx < 0 {
				wIdx = i
			}
			if x%m == v%m && wModIdx < 0 {
				wModIdx = i
			}
		}
		gIdx := slices.Index(s, v)
		if msg := lazyVal(gIdx == wIdx, gIdx, wIdx, "Index(s, %d)", v); msg != "" {
			return pbt.Fail("%s", msg)
		}
		gC := slices.Contains(s, v)
		if msg := lazyVal(gC == (wIdx >= 0), gC, wIdx >= 0, "Contains(s, %d)", v); msg != "" {
			return pbt.Fail("%s", msg)
		}
		gCF := slices.ContainsFunc(s, v, eqMod)
		if msg := lazyVal(gCF == (wModIdx >= 0), gCF, wModIdx >= 0, "ContainsFunc(s, %d, a%%%d==b%%%d)", v, m, m); msg != "" {
			return pbt.Fail("%s", msg)
		}
	}

	// ---- Distinct, DistinctFunc: first occurrences in original order
	var wantDistinct []int
	{
		var wantMod []int
		for _, v := range orig {
			if !has(wantDistinct, v) {
				wantDistinct = append(wantDistinct, v)
			}
			seen := false
			for _, w := range wantMod {
				if w%m == v%m {
					seen = true
				}
			}
			if !seen {
				wantMod = append(wantMod, v)
			}
		}
		var got myInts = slices.Distinct(s)
		if msg := checkNew("Distinct(s)", got, wantDistinct); msg != "" {
			return pbt.Fail("%s", msg)
		}
		got = slices.DistinctFunc(s, eqMod)
		if msg := checkNew(fmt.Sprintf("DistinctFunc(s, a%%%d==b%%%d)", m, m), got, wantMod); msg != "" {
			return pbt.Fail("%s", msg)
		}
	}

	// ---- Except, ExceptSet
	exceptRemoved := 0
	{
		var want []int
		for _, v := range orig {
			if !has(setSnap, v) {
				want = append(want, v)
			}
		}
		exceptRemoved = n - len(want)
		var got myInts = slices.Except(s, set)
		if msg := checkNew(fmt.Sprintf("Except(s, %s)", setDesc), got, want); msg != "" {
			return pbt.Fail("%s", msg)
		}
		ex := make(maps.Set[int])
		for _, v := range setSnap {
			ex.Add(v)
		}
		exLen := ex.Len()
		got = slices.ExceptSet[myInts, int](s, ex)
		if msg := checkNew(fmt.Sprintf("ExceptSet(s, set%s)", setDesc), got, want); msg != "" {
			return pbt.Fail("%s", msg)
		}
		if ex.Len() != exLen {
			return pbt.Fail("ExceptSet(s, set%s) (%s) changed the exclude set: %d elements, was %d", setDesc, desc, ex.Len(), exLen)
		}
		for _, v := range append(append([]int(nil), probes...), setSnap...) {
			if ex.Has(v) != has(setSnap, v) {
				return pbt.Fail("ExceptSet(s, set%s) (%s) changed the exclude set: Has(%d)=%v", setDesc, desc, v, ex.Has(v))
			}
		}
	}

	// ---- GroupBy, CountBy with int keys (v%m) and bool keys (v<c)
	groupsSeen := 0
	{
		wantG := groupsOf(orig, func(v int) int { return v % m })
		groupsSeen = len(wantG)
		op := fmt.Sprintf("GroupBy(s, v%%%d)", m)
		groups := slices.GroupBy(s, func(v int) int { observe(); return v % m })
		out.Evals++
		if msg := checkGroups(op, desc, n, groups, wantG); msg != "" {
			return pbt.Fail("%s", msg)
		}
		if msg := intact(op); msg != "" {
			return pbt.Fail("%s", msg)
		}
		if msg := growGroups(op, desc, groups, scribble, sameInt); msg != "" {
			return pbt.Fail("%s", msg)
		}
		for _, g := range groups {
			if msg := fresh(op, g.Values); msg != "" {
				return pbt.Fail("%s", msg)
			}
		}
		op = fmt.Sprintf("CountBy(s, v%%%d)", m)
		counts := slices.CountBy(s, func(v int) int { observe(); return v % m })
		out.Evals++
		if msg := checkCounts(op, desc, counts, wantG); msg != "" {
			return pbt.Fail("%s", msg)
		}
		if msg := intact(op); msg != "" {
			return pbt.Fail("%s", msg)
		}

		// bool keys
		wantB := groupsOf(orig, func(v int) bool { return v < c.C })
		op = fmt.Sprintf("GroupBy(s, v<%d)", c.C)
		bgroups := slices.GroupBy(s, func(v int) bool { observe(); return v < c.C })
		out.Evals++
		if msg := checkGroups(op, desc, n, bgroups, wantB); msg != "" {
			return pbt.Fail("%s", msg)
		}
		if msg := intact(op); msg != "" {
			return pbt.Fail("%s", msg)
		}
		if msg := growGroups(op, desc, bgroups, scribble, sameInt); msg != "" {
			return pbt.Fail("%s", msg)
		}
		for _, g := range bgroups {
			if msg := fresh(op, g.Values); msg != "" {
				return pbt.Fail("%s", msg)
			}
		}
		op = fmt.Sprintf("CountBy(s, v<%d)", c.C)
		bcounts := slices.CountBy(s, func(v int) bool { observe(); return v < c.C })
		out.Evals++
		if msg := checkCounts(op, desc, bcounts, wantB); msg != "" {
			return pbt.Fail("%s", msg)
		}
		if msg := intact(op); msg != "" {
			return pbt.Fail("%s", msg)
		}
	}

	// ---- Trim, TrimLeft, TrimRight with an unwanted list
	trimL, trimR := 0, 0
	{
		lo, hi := 0, n
		for hi > 0 && has(setSnap, orig[hi-1]) {
			hi--
		}
		for lo < hi && has(setSnap, orig[lo]) {
			lo++
		}
		lo2 := 0
		for lo2 < n && has(setSnap, orig[lo2]) {
			lo2++
		}
		trimL, trimR = lo2, n-hi
		if msg := checkSub(fmt.Sprintf("Trim(s, %s)", setDesc), slices.Trim(s, set), lo, hi); msg != "" {
			return pbt.Fail("%s", msg)
		}
		if msg := checkSub(fmt.Sprintf("TrimLeft(s, %s)", setDesc), slices.TrimLeft(s, set), lo2, n); msg != "" {
			return pbt.Fail("%s", msg)
		}
		if msg := checkSub(fmt.Sprintf("TrimRight(s, %s)", setDesc), slices.TrimRight(s, set), 0, hi); msg != "" {
			return pbt.Fail("%s", msg)
		}
	}

	// ---- the same memory passed twice: the slice itself, and the sub-slice s[a:b] of it (a, b derived from j and c), as exclude/unwanted list
	{
		a := c.J
		if a < 0 {
			a = 0
		}
		if a > n {
			a = n
		}
		b := a + ((c.C%(n-a+1))+(n-a+1))%(n-a+1)
		subs := [][2]int{{0, n}, {a, b}}
		if n > 1024 { // the reference is quadratic: long slices get lists of at most 200 / 64 elements
			if b > a+64 {
				b = a + 64
			}
			subs = [][2]int{{0, 200}, {a, b}}
		}
		for _, sub := range subs {
			list := s[sub[0]:sub[1]:sub[1]]
			if sub[0] == 0 && sub[1] == n {
				list = s
			}
			listed := orig[sub[0]:sub[1]]
			var want []int
			for _, v := range orig {
				if !has(listed, v) {
					want = append(want, v)
				}
			}
			name := fmt.Sprintf("s[%d:%d]", sub[0], sub[1])
			var got myInts = slices.Except(s, list)
			if msg := checkNew("Except(s, "+name+")", got, want); msg != "" {
				return pbt.Fail("%s", msg)
			}
			lo, hi := 0, n
			for hi > 0 && has(listed, orig[hi-1]) {
				hi--
			}
			for lo < hi && has(listed, orig[lo]) {
				lo++
			}
			lo2 := 0
			for lo2 < n && has(listed, orig[lo2]) {
				lo2++
			}
			if msg := checkSub("Trim(s, "+name+")", slices.Trim(s, list), lo, hi); msg != "" {
				return pbt.Fail("%s", msg)
			}
			if msg := checkSub("TrimLeft(s, "+name+")", slices.TrimLeft(s, list), lo2, n); msg != "" {
				return pbt.Fail("%s", msg)
			}
			if msg := checkSub("TrimRight(s, "+name+")", slices.TrimRight(s, list), 0, hi); msg != "" {
				return pbt.Fail("%s", msg)
			}
		}
	}

	// ---- TryGet, SafeGet, SafeGetOr over indices -2..n+1 (a selection for long slices) and the extreme ints; Last
	idxs := []int{math.MinInt, math.MaxInt}
	if n <= 64 {
		for i := -2; i <= n+1; i++ {
			idxs = append(idxs, i)
		}
	} else {
		idxs = append(idxs, -2, -1, 0, 1, 31, 32, 33, 63, 64, n/2, n-2, n-1, n, n+1, 2*n)
	}
	for _, i := range idxs {
		in := i >= 0 && i < n
		wv, wor := 0, c.Fallback
		if in {
			wv, wor = orig[i], orig[i]
		}
		gv, gok := slices.TryGet(s, i)
		if msg := lazyVal(gv == wv && gok == in, [2]any{gv, gok}, [2]any{wv, in}, "TryGet(s, %d)", i); msg != "" {
			return pbt.Fail("%s", msg)
		}
		gv = slices.SafeGet(s, i)
		if msg := lazyVal(gv == wv, gv, wv, "SafeGet(s, %d)", i); msg != "" {
			return pbt.Fail("%s", msg)
		}
		gv = slices.SafeGetOr(s, i, c.Fallback)
		if msg := lazyVal(gv == wor, gv, wor, "SafeGetOr(s, %d, %d)", i, c.Fallback); msg != "" {
			return pbt.Fail("%s", msg)
		}
	}
	if n > 0 {
		gv := slices.Last(s)
		if msg := checkVal("Last(s)", gv == orig[n-1], gv, orig[n-1]); msg != "" {
			return pbt.Fail("%s", msg)
		}
	}

	// ---- classes
	distinct := len(wantDistinct)
	dup := distinct < n
	out.NonTrivial = n >= 3 && dup && distinct >= 2
	lab := func(l string) { out.Labels = append(out.Labels, l) }
	switch {
	case n == 0 && s == nil:
		lab("n=0(nil)")
	case n == 0:
		lab("n=0")
	case n == 1:
		lab("n=1")
	case n == 2:
		lab("n=2")
	case n <= 6:
		lab("n=3..6")
	case n <= 32:
		lab("n=7..32")
	case n <= 64:
		lab("n=33..64")
	case n <= 256:
		lab("n=65..256")
	case n <= 1024:
		lab("n=257..1024")
	case n <= 4096:
		lab("n=1025..4096")
	case n <= 16384:
		lab("n=4097..16384")
	case n <= 65536:
		lab("n=16385..65536")
	default:
		lab("n>65536")
	}
	for _, th := range []int{32, 64, 256, 1024, 4096} {
		if distinct > th {
			lab("distinct>" + strconv.Itoa(th))
		}
		if groupsSeen > th {
			lab("groupby:groups>" + strconv.Itoa(th))
		}
	}
	if groupsSeen > 32 && distinct > groupsSeen {
		lab("groupby:>32-groups-with-distinct-members")
	}
	for _, x := range orig {
		if x > math.MaxInt-1<<20 || x < math.MinInt+1<<20 {
			lab("values:near-int-limits")
			break
		}
	}
	if len(setSnap) > 32 {
		lab("exclude-list>32")
	}
	if c.Nest > 0 {
		lab("nested-calls-from-callbacks")
	}
	if dup {
		lab("has-duplicates")
	}
	if distinct >= 2 {
		lab("fold:>=2-distinct")
	}
	if len(back) > n {
		lab("spare-capacity")
	}
	if (len(back)-n)*8 > 1<<20 {
		lab("spare-capacity>1MiB")
	}
	if c.Procs > 0 {
		lab("gomaxprocs=" + strconv.Itoa(c.Procs))
	}
	switch {
	case c.J < n && c.J == 0:
		lab("maperr:fails-first")
	case c.J < n && c.J == n-1:
		lab("maperr:fails-last")
	case c.J < n:
		lab("maperr:fails-middle")
	default:
		lab("maperr:no-error")
	}
	if anyTrue {
		lab("pred:some-not-all")
	}
	if allTrue {
		lab("pred:all")
	}
	if groupsSeen >= 2 {
		lab("groupby:>=2-groups")
	}
	if groupsSeen >= 2 && distinct > groupsSeen {
		lab("groupby:group-with-distinct-members")
	}
	if exceptRemoved > 0 && exceptRemoved < n {
		lab("except:some-removed")
	}
	switch {
	case n > 0 && trimL == n:
		lab("trim:everything")
	case trimL > 0 && trimR > 0:
		lab("trim:both-ends")
	case trimL > 0:
		lab("trim:left-only")
	case trimR > 0:
		lab("trim:right-only")
	default:
		lab("trim:nothing")
	}
	return out
}

func genCase(t *rapid.T) Case {
	// one case in eight is a short slice (0..2 elements) over 0..k with k possibly 0; the others have 3..12 elements over 0..k, k>=1
	k, lo, hi := rapid.IntRange(1, 5).Draw(t, "maxValue"), 3, 12
	if rapid.IntRange(0, 7).Draw(t, "short") == 0 {
		k, lo, hi = rapid.IntRange(0, 5).Draw(t, "maxValueShort"), 0, 2
	}
	n := rapid.IntRange(lo, hi).Draw(t, "n")
	s := make([]int, n)
	for i := range s {
		s[i] = rapid.IntRange(0, k).Draw(t, "v")
	}
	m := rapid.IntRange(1, 4).Draw(t, "m")
	c := Case{
		S: s, M: m,
		Spare:    rapid.IntRange(0, 3).Draw(t, "spare"),
		Nil:      rapid.Bool().Draw(t, "nil"),
		R:        rapid.IntRange(0, m-1).Draw(t, "r"),
		C:        rapid.IntRange(0, 6).Draw(t, "c"),
		Seed:     rapid.IntRange(-3, 3).Draw(t, "seed"),
		J:        rapid.IntRange(0, n+1).Draw(t, "j"),
		Fallback: rapid.IntRange(-2, 9).Draw(t, "fallback"),
	}
	// unwanted/exclude list: random values, optionally seeded with the slice's own end values so that
	// trimming at both ends is frequent
	set := rapid.SliceOfN(rapid.IntRange(0, 5), 0, 3).Draw(t, "set")
	if rapid.IntRange(0, 5).Draw(t, "longSet") == 0 { // a long list (9..72 values, with repetitions and values the slice cannot hold)
		set = pbt.OpsOf(t, rapid.IntRange(0, 9), []int{9, 17, 33}, "setLong")
	}
	if n > 0 {
		switch rapid.IntRange(0, 3).Draw(t, "setEnds") {
		case 1:
			set = append(set, s[0])
		case 2:
			set = append(set, s[n-1])
		case 3:
			set = append(set, s[n-1], s[0])
		}
	}
	if set == nil {
		set = []int{}
	}
	if c.S == nil {
		c.S = []int{}
	}
	c.Set = set
	if rapid.IntRange(0, 3).Draw(t, "nested") == 0 {
		c.Nest = rapid.IntRange(1, n+2).Draw(t, "nest")
	}
	return c
}

var specRand = pbt.Register(&pbt.Spec[Case]{
	Property: "C14", Name: "C14.rand",
	Rule: "rapid: length 3..12 over 0..k (k drawn 1..5), one case in eight length 0..2 (k 0..5), spare 0..3, m 1..4, c 0..6, j 0..n+1, unwanted list 0..5 values, one case in six 9..72 values over 0..9 " +
		"(often containing the slice's end values), one case in four with nest 1..n+2; " + sliceRule,
	Gen: genCase, Run: Run, Quick: 30000, Thorough: 200000, Replicas: 4, ReplicaEvery: 16,
})

// enumSlices yields every sequence over 0..k-1 of length 0..maxLen.
func enumSlices(k, maxLen int, f func([]int) bool) bool {
	cur := make([]int, 0, maxLen)
	var rec func() bool
	rec = func() bool {
		if !f(cur) {
			return false
		}
		if len(cur) == maxLen {
			return true
		}
		for v := 0; v < k; v++ {
			cur = append(cur, v)
			if !rec() {
				return false
			}
			cur = cur[:len(cur)-1]
		}
		return true
	}
	return rec()
}

// enumGrid yields, for every sequence over 0..k-1 of length 0..maxLen, every (m, r<m) with m<=maxM,
// every subset of 0..k-1 as the unwanted/exclude list and every t in 0..max(n,k): J=t, C=t.
func enumGrid(k, maxLen, maxM int, yield func(Case) bool) bool {
	return enumSlices(k, maxLen, func(s []int) bool {
		n := len(s)
		tmax := n
		if k > tmax {
			tmax = k
		}
		for m := 1; m <= maxM; m++ {
			for r := 0; r < m; r++ {
				for sub := 0; sub < 1<<k; sub++ {
					set := []int{}
					for v := k - 1; v >= 0; v-- {
						if sub&(1<<v) != 0 {
							set = append(set, v)
						}
					}
					for t := 0; t <= tmax; t++ {
						cs := Case{S: append([]int{}, s...), Spare: (n + sub + t) % 3, Nil: t%2 == 1, M: m, R: r, C: t,
							Seed: t%3 - 1, J: t, Set: set, Fallback: 7}
						if q := (n + sub + t + m + r) % 8; q < 3 && n > 0 {
							cs.Nest = 1 + (q+t)%(n+2)
						}
						if !yield(cs) {
							return false
						}
					}
				}
			}
		}
		return true
	})
}

var specEnum = pbt.Register(&pbt.Spec[Case]{
	Property: "C14", Name: "C14.enum",
	Rule: "exhaustive small scope: every sequence over 0..2 of length 0..5 x (m in 1..3, r<m) x every subset of 0..2 as unwanted/exclude list " +
		"x t in 0..max(n,3) with j=c=t, three points in eight with nested calls (thorough: additionally sequences over 0..2 up to length 7 with m<=2, and over 0..3 up to length 5 with m<=3); " + sliceRule,
	Enum: func(shard, shards int, tier string, yieldAll func(Case) bool) {
		i := 0
		yield := func(c Case) bool { // the shards share the space point by point
			i++
			return i%shards != shard || yieldAll(c)
		}
		if !enumGrid(3, 5, 3, yield) {
			return
		}
		if tier == "thorough" {
			if !enumGrid(3, 7, 2, yield) {
				return
			}
			enumGrid(4, 5, 3, yield)
		}
	},
	Run: Run, Exhaustive: true, Replicas: 4, ReplicaEvery: 32,
})

func TestC14Enum(t *testing.T) { pbt.Check(t, specEnum) }
func TestC14Rand(t *testing.T) { pbt.Check(t, specRand) }
func TestReplay(t *testing.T)  { pbt.Replay(t) }
