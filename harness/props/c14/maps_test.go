package c14

import (
	"fmt"
	"sort"
	"testing"

	"gopkg.in/typ.v4/maps"
	"pgregory.net/rapid"
	"verifharness/internal/pbt"
)

// MapCase is one map scenario: the entries are inserted in order (a later entry
// with the same key replaces the earlier one).
type MapCase struct {
	Entries [][2]int `json:"entries"` // (key 0..11, value 0..3)
	Nil     bool     `json:"nil"`     // pass a nil map when there are no entries
}

type myMap map[int]int

type kv struct{ k, v int }

const mapRule = "case = list of (key 0..11, value 0..3) entries, inserted in order into a named map type (nil map when empty and flagged); " +
	"the oracle is a key-sorted list of pairs, never a Go map iteration: ContainsValue and KeyOf for values -1..4 (KeyOf: found flag exact, " +
	"returned key must be some key holding that value), HasKey for keys -1..12, Keys and Values as sorted multisets, Clone equal to the model " +
	"and independent (overwrite, delete and add on the clone, then Clear on it, leave the original unchanged), Clear empties its argument; " +
	"after every call the original map is compared with the model; non-trivial = at least 3 entries and a value held by 2 or more keys"

// RunMap executes every helper of maps/maps.go on the case.
func RunMap(c MapCase) pbt.Outcome {
	// model: pairs sorted by key, later entries win
	var model []kv
	for _, e := range c.Entries {
		at := sort.Search(len(model), func(i int) bool { return model[i].k >= e[0] })
		if at < len(model) && model[at].k == e[0] {
			model[at].v = e[1]
			continue
		}
		model = append(model, kv{})
		copy(model[at+1:], model[at:])
		model[at] = kv{e[0], e[1]}
	}
	build := func() myMap {
		if len(model) == 0 && c.Nil {
			return nil
		}
		m := make(myMap)
		for _, e := range c.Entries {
			m[e[0]] = e[1]
		}
		return m
	}
	m := build()
	desc := fmt.Sprintf("map%v", model)
	out := pbt.Outcome{}
	// same: map x holds exactly the model's pairs (lookups only, no iteration)
	same := func(x myMap) bool {
		if len(x) != len(model) {
			return false
		}
		for _, p := range model {
			if v, ok := x[p.k]; !ok || v != p.v {
				return false
			}
		}
		return true
	}
	intact := func(op string) string {
		if (m == nil) != (len(model) == 0 && c.Nil) || !same(m) {
			return fmt.Sprintf("%s modified its input, which was %s\nnow %v", op, desc, sortedPairs(m))
		}
		return ""
	}
	valueHolders := func(v int) int {
		cnt := 0
		for _, p := range model {
			if p.v == v {
				cnt++
			}
		}
		return cnt
	}

	keyofDup, keyofAbsent := false, false
	for v := -1; v <= 4; v++ {
		holders := valueHolders(v)
		out.Evals += 2
		if got := maps.ContainsValue(m, v); got != (holders > 0) {
			return pbt.Fail("ContainsValue(%s, %d) = %v, want %v", desc, v, got, holders > 0)
		}
		if msg := intact(fmt.Sprintf("ContainsValue(m, %d)", v)); msg != "" {
			return pbt.Fail("%s", msg)
		}
		k, ok := maps.KeyOf(m, v)
		if ok != (holders > 0) {
			return pbt.Fail("KeyOf(%s, %d): found flag is wrong, want found=%v\ngot (%d, %v)", desc, v, holders > 0, k, ok)
		}
		if ok {
			at := sort.Search(len(model), func(i int) bool { return model[i].k >= k })
			if at >= len(model) || model[at].k != k || model[at].v != v {
				return pbt.Fail("KeyOf(%s, %d) returned a key that does not hold value %d\ngot (%d, true)", desc, v, v, k)
			}
		}
		if msg := intact(fmt.Sprintf("KeyOf(m, %d)", v)); msg != "" {
			return pbt.Fail("%s", msg)
		}
		if holders >= 2 {
			keyofDup = true
		}
		if holders == 0 {
			keyofAbsent = true
		}
	}
	for k := -1; k <= 12; k++ {
		at := sort.Search(len(model), func(i int) bool { return model[i].k >= k })
		want := at < len(model) && model[at].k == k
		out.Evals++
		if got := maps.HasKey(m, k); got != want {
			return pbt.Fail("HasKey(%s, %d) = %v, want %v", desc, k, got, want)
		}
	}
	if msg := intact("HasKey"); msg != "" {
		return pbt.Fail("%s", msg)
	}

	// Keys / Values as multisets; results are new
	{
		keys := maps.Keys(m)
		out.Evals++
		got := append([]int(nil), keys...)
		sort.Ints(got)
		want := make([]int, len(model))
		for i, p := range model {
			want[i] = p.k
		}
		if !eqInts(got, want) {
			return pbt.Fail("Keys(%s) is not a permutation of the keys %v\ngot %v (sorted %v)", desc, want, keys, got)
		}
		for i := range keys {
			keys[i] = scribble
		}
		if msg := intact("Keys(m) (after overwriting its result)"); msg != "" {
			return pbt.Fail("%s", msg)
		}
		vals := maps.Values(m)
		out.Evals++
		got = append([]int(nil), vals...)
		sort.Ints(got)
		for i, p := range model {
			want[i] = p.v
		}
		sort.Ints(want)
		if !eqInts(got, want) {
			return pbt.Fail("Values(%s) is not a permutation of the values %v\ngot %v (sorted %v)", desc, want, vals, got)
		}
		for i := range vals {
			vals[i] = scribble
		}
		if msg := intact("Values(m) (after overwriting its result)"); msg != "" {
			return pbt.Fail("%s", msg)
		}
	}

	// Clone: equal, new, independent
	{
		var cl myMap = maps.Clone(m)
		out.Evals++
		if !same(cl) {
			return pbt.Fail("Clone(%s) is not an equal map\ngot %v", desc, sortedPairs(cl))
		}
		if msg := intact("Clone(m)"); msg != "" {
			return pbt.Fail("%s", msg)
		}
		if cl != nil { // a nil clone of an empty map shares nothing; there is nothing to overwrite
			for _, p := range model {
				cl[p.k] = p.v + 100
			}
			if len(model) > 0 {
				delete(cl, model[0].k)
			}
			cl[99] = 1
		}
		if msg := intact("Clone(m) (after overwriting, deleting from and adding to its result)"); msg != "" {
			return pbt.Fail("%s", msg)
		}
		maps.Clear(cl)
		out.Evals++
		if len(cl) != 0 {
			return pbt.Fail("Clear(modified clone of %s) did not empty the map\nleft %d entries: %v", desc, len(cl), sortedPairs(cl))
		}
		if msg := intact("Clear(clone)"); msg != "" {
			return pbt.Fail("%s", msg)
		}
	}

	// Clear on an independently built twin of the input
	{
		twin := build()
		maps.Clear(twin)
		out.Evals++
		if len(twin) != 0 {
			return pbt.Fail("Clear(%s) did not empty the map\nleft %d entries: %v", desc, len(twin), sortedPairs(twin))
		}
		for _, p := range model {
			if _, ok := twin[p.k]; ok {
				return pbt.Fail("Clear(%s) did not empty the map\nkey %d is still present", desc, p.k)
			}
		}
		if (twin == nil) != (len(model) == 0 && c.Nil) {
			return pbt.Fail("Clear(%s): nil-ness of the map changed", desc)
		}
		if twin != nil {
			twin[5] = 6 // still usable
			if len(twin) != 1 || twin[5] != 6 {
				return pbt.Fail("Clear(%s): the map is not usable afterwards: %v", desc, sortedPairs(twin))
			}
		}
	}

	n := len(model)
	out.NonTrivial = n >= 3 && keyofDup
	lab := func(l string) { out.Labels = append(out.Labels, l) }
	switch {
	case m == nil:
		lab("entries=0(nil)")
	case n == 0:
		lab("entries=0")
	case n == 1:
		lab("entries=1")
	case n <= 4:
		lab("entries=2..4")
	default:
		lab("entries>=5")
	}
	if keyofDup {
		lab("value-held-by->=2-keys")
	}
	if keyofAbsent {
		lab("probe-value-absent")
	}
	if len(c.Entries) > n {
		lab("key-inserted-twice")
	}
	return out
}

func sortedPairs(m myMap) []kv {
	ks := make([]int, 0, len(m))
	for k := range m {
		ks = append(ks, k)
	}
	sort.Ints(ks)
	ps := make([]kv, len(ks))
	for i, k := range ks {
		ps[i] = kv{k, m[k]}
	}
	return ps
}

var specMaps = pbt.Register(&pbt.Spec[MapCase]{
	Property: "C14", Name: "C14.maps",
	Rule: "rapid: 0..8 entries, keys 0..11, values 0..v (v drawn 0..3); " + mapRule,
	Gen: func(t *rapid.T) MapCase {
		maxV := rapid.IntRange(0, 3).Draw(t, "maxValue")
		n := rapid.IntRange(0, 8).Draw(t, "n")
		es := make([][2]int, n)
		for i := range es {
			es[i] = [2]int{rapid.IntRange(0, 11).Draw(t, "k"), rapid.IntRange(0, maxV).Draw(t, "v")}
		}
		return MapCase{Entries: es, Nil: rapid.Bool().Draw(t, "nil")}
	},
	Run: RunMap, Quick: 10000, Thorough: 60000,
})

func TestC14Maps(t *testing.T) { pbt.Check(t, specMaps) }
