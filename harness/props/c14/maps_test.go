package c14

import (
	"fmt"
	"math"
	"sort"
	"testing"

	"gopkg.in/typ.v4/maps"
	"pgregory.net/rapid"
	"verifharness/internal/pbt"
)

// MapCase is one map scenario: the entries are inserted in order (a later entry
// with the same key replaces the earlier one).
type MapCase struct {
	Entries [][2]int `json:"entries"` // (key, value); C14.maps: keys 0..11, values 0..3; C14.maps.big: any int keys
	Nil     bool     `json:"nil"`     // pass a nil map when there are no entries
}

type myMap map[int]int

type kv struct{ k, v int }

const mapRule = "case = list of (key, value 0..3) entries, inserted in order into a named map type (nil map when empty and flagged); " +
	"the oracle is a key-sorted list of pairs, never a Go map iteration: ContainsValue and KeyOf for values -1..4 (KeyOf: found flag exact, " +
	"returned key must be some key holding that value), HasKey for keys -1..12 and k-1, k, k+1 for every key k of the map, Keys and Values as sorted multisets, " +
	"Clone equal to the model, never nil (a nil map cannot be modified) and independent: every entry of the clone is overwritten, one deleted and a new key added, " +
	"the clone must then hold exactly that and the original be unchanged; then Clear on it; Clear empties its argument and leaves it usable; " +
	"after every call the original map is compared with the model; non-trivial = at least 3 entries and a value held by 2 or more keys"

// RunMap executes every helper of maps/maps.go on the case.
func RunMap(c MapCase) pbt.Outcome {
	// model: pairs sorted by key, later entries win
	var model []kv
	{
		order := make([]int, len(c.Entries))
		for i := range order {
			order[i] = i
		}
		sort.SliceStable(order, func(a, b int) bool { return c.Entries[order[a]][0] < c.Entries[order[b]][0] })
		for _, i := range order {
			e := c.Entries[i]
			if n := len(model); n > 0 && model[n-1].k == e[0] {
				model[n-1].v = e[1]
				continue
			}
			model = append(model, kv{e[0], e[1]})
		}
	}
	build := func() myMap {
		if len(model) == 0 && c.Nil {
			return nil
		}
		m := make(myMap)
		for _, e := range c.Entries {
			m[e[0]] = e[1]
		}
		return m
	}
	m := build()
	desc := fmt.Sprintf("map%v", model)
	if len(model) > 40 {
		desc = fmt.Sprintf("map(%d entries)%v...%v", len(model), model[:12], model[len(model)-3:])
	}
	showPairs := func(x myMap) string {
		if len(x) > 40 {
			return fmt.Sprintf("a map of %d entries", len(x))
		}
		return fmt.Sprint(sortedPairs(x))
	}
	hasKey := func(k int) bool {
		at := sort.Search(len(model), func(i int) bool { return model[i].k >= k })
		return at < len(model) && model[at].k == k
	}
	out := pbt.Outcome{}
	// same: map x holds exactly the model's pairs (lookups only, no iteration)
	same := func(x myMap) bool {
		if len(x) != len(model) {
			return false
		}
		for _, p := range model {
			if v, ok := x[p.k]; !ok || v != p.v {
				return false
			}
		}
		return true
	}
	intact := func(op string) string {
		if (m == nil) != (len(model) == 0 && c.Nil) || !same(m) {
			return fmt.Sprintf("%s modified its input, which was %s\nnow %s", op, desc, showPairs(m))
		}
		return ""
	}
	valueHolders := func(v int) int {
		cnt := 0
		for _, p := range model {
			if p.v == v {
				cnt++
			}
		}
		return cnt
	}

	keyofDup, keyofAbsent := false, false
	for v := -1; v <= 4; v++ {
		holders := valueHolders(v)
		out.Evals += 2
		if got := maps.ContainsValue(m, v); got != (holders > 0) {
			return pbt.Fail("ContainsValue(%s, %d) = %v, want %v", desc, v, got, holders > 0)
		}
		if msg := intact(fmt.Sprintf("ContainsValue(m, %d)", v)); msg != "" {
			return pbt.Fail("%s", msg)
		}
		k, ok := maps.KeyOf(m, v)
		if ok != (holders > 0) {
			return pbt.Fail("KeyOf(%s, %d): found flag is wrong, want found=%v\ngot (%d, %v)", desc, v, holders > 0, k, ok)
		}
		if ok {
			at := sort.Search(len(model), func(i int) bool { return model[i].k >= k })
			if at >= len(model) || model[at].k != k || model[at].v != v {
				return pbt.Fail("KeyOf(%s, %d) returned a key that does not hold value %d\ngot (%d, true)", desc, v, v, k)
			}
		}
		if msg := intact(fmt.Sprintf("KeyOf(m, %d)", v)); msg != "" {
			return pbt.Fail("%s", msg)
		}
		if holders >= 2 {
			keyofDup = true
		}
		if holders == 0 {
			keyofAbsent = true
		}
	}
	for k := -1; k <= 12; k++ {
		out.Evals++
		if got, want := maps.HasKey(m, k), hasKey(k); got != want {
			return pbt.Fail("HasKey(%s, %d) = %v, want %v", desc, k, got, want)
		}
	}
	for _, p := range model {
		for k := p.k - 1; ; k++ { // p.k-1 and p.k+1 may wrap around: still valid probes
			out.Evals++
			if got, want := maps.HasKey(m, k), hasKey(k); got != want {
				return pbt.Fail("HasKey(%s, %d) = %v, want %v", desc, k, got, want)
			}
			if k == p.k+1 {
				break
			}
		}
	}
	if msg := intact("HasKey"); msg != "" {
		return pbt.Fail("%s", msg)
	}

	// Keys / Values as multisets; results are new
	{
		keys := maps.Keys(m)
		out.Evals++
		got := append([]int(nil), keys...)
		sort.Ints(got)
		want := make([]int, len(model))
		for i, p := range model {
			want[i] = p.k
		}
		if !eqInts(got, want) {
			return pbt.Fail("Keys(%s) is not a permutation of the keys %s\ngot %s (sorted %s)", desc, show(want), show(keys), show(got))
		}
		for i := range keys {
			keys[i] = scribble
		}
		if msg := intact("Keys(m) (after overwriting its result)"); msg != "" {
			return pbt.Fail("%s", msg)
		}
		vals := maps.Values(m)
		out.Evals++
		got = append([]int(nil), vals...)
		sort.Ints(got)
		for i, p := range model {
			want[i] = p.v
		}
		sort.Ints(want)
		if !eqInts(got, want) {
			return pbt.Fail("Values(%s) is not a permutation of the values %s\ngot %s (sorted %s)", desc, show(want), show(vals), show(got))
		}
		for i := range vals {
			vals[i] = scribble
		}
		if msg := intact("Values(m) (after overwriting its result)"); msg != "" {
			return pbt.Fail("%s", msg)
		}
	}

	// Clone: equal, new (never nil: a nil map cannot be modified), independent
	{
		var cl myMap = maps.Clone(m)
		out.Evals++
		if !same(cl) {
			return pbt.Fail("Clone(%s) is not an equal map\ngot %s", desc, showPairs(cl))
		}
		if msg := intact("Clone(m)"); msg != "" {
			return pbt.Fail("%s", msg)
		}
		if cl == nil {
			return pbt.Fail("Clone(%s) returned a nil map: the result is not a new map that can be modified (a write to it panics with 'assignment to entry in nil map')", desc)
		}
		for _, p := range model {
			cl[p.k] = p.v + 100
		}
		if len(model) > 0 {
			delete(cl, model[0].k)
		}
		fresh := 99
		for hasKey(fresh) {
			fresh++
		}
		cl[fresh] = 1
		if msg := intact("Clone(m) (after overwriting, deleting from and adding to its result)"); msg != "" {
			return pbt.Fail("%s", msg)
		}
		// the clone took the modifications
		wantLen := 1
		if len(model) > 0 {
			wantLen = len(model)
		}
		okMod := len(cl) == wantLen
		if v, ok := cl[fresh]; !ok || v != 1 {
			okMod = false
		}
		for i, p := range model {
			v, ok := cl[p.k]
			if i == 0 {
				okMod = okMod && !ok
			} else {
				okMod = okMod && ok && v == p.v+100
			}
		}
		if !okMod {
			return pbt.Fail("Clone(%s): the result does not behave like a map of its own: after overwriting every entry with value+100, deleting its smallest key and adding key %d it holds\n%s", desc, fresh, showPairs(cl))
		}
		maps.Clear(cl)
		out.Evals++
		if len(cl) != 0 {
			return pbt.Fail("Clear(modified clone of %s) did not empty the map\nleft %d entries: %s", desc, len(cl), showPairs(cl))
		}
		if msg := intact("Clear(clone)"); msg != "" {
			return pbt.Fail("%s", msg)
		}
	}

	// Clear on an independently built twin of the input
	{
		twin := build()
		maps.Clear(twin)
		out.Evals++
		if len(twin) != 0 {
			return pbt.Fail("Clear(%s) did not empty the map\nleft %d entries: %s", desc, len(twin), showPairs(twin))
		}
		for _, p := range model {
			if _, ok := twin[p.k]; ok {
				return pbt.Fail("Clear(%s) did not empty the map\nkey %d is still present", desc, p.k)
			}
		}
		if (twin == nil) != (len(model) == 0 && c.Nil) {
			return pbt.Fail("Clear(%s): nil-ness of the map changed", desc)
		}
		if twin != nil {
			twin[5] = 6 // still usable
			if len(twin) != 1 || twin[5] != 6 {
				return pbt.Fail("Clear(%s): the map is not usable afterwards: %s", desc, showPairs(twin))
			}
			// and can be refilled completely
			delete(twin, 5)
			for _, p := range model {
				twin[p.k] = p.v
			}
			if !same(twin) {
				return pbt.Fail("Clear(%s): refilling the map afterwards does not give the same map again: %s", desc, showPairs(twin))
			}
		}
	}

	n := len(model)
	out.NonTrivial = n >= 3 && keyofDup
	lab := func(l string) { out.Labels = append(out.Labels, l) }
	switch {
	case m == nil:
		lab("entries=0(nil)")
	case n == 0:
		lab("entries=0")
	case n == 1:
		lab("entries=1")
	case n <= 4:
		lab("entries=2..4")
	case n <= 8:
		lab("entries=5..8")
	case n <= 64:
		lab("entries=9..64")
	case n <= 1024:
		lab("entries=65..1024")
	default:
		lab("entries>1024")
	}
	if n > 0 && (model[0].k < -1<<40 || model[n-1].k > 1<<40) {
		lab("keys:far-from-zero")
	}
	if keyofDup {
		lab("value-held-by->=2-keys")
	}
	if keyofAbsent {
		lab("probe-value-absent")
	}
	if len(c.Entries) > n {
		lab("key-inserted-twice")
	}
	return out
}

func sortedPairs(m myMap) []kv {
	ks := make([]int, 0, len(m))
	for k := range m {
		ks = append(ks, k)
	}
	sort.Ints(ks)
	ps := make([]kv, len(ks))
	for i, k := range ks {
		ps[i] = kv{k, m[k]}
	}
	return ps
}

var specMaps = pbt.Register(&pbt.Spec[MapCase]{
	Property: "C14", Name: "C14.maps",
	Rule: "rapid: 0..8 entries (one case in eight: 9..40), keys 0..11, values 0..v (v drawn 0..3); " + mapRule,
	Gen: func(t *rapid.T) MapCase {
		maxV := rapid.IntRange(0, 3).Draw(t, "maxValue")
		n := rapid.IntRange(0, 8).Draw(t, "n")
		if rapid.IntRange(0, 7).Draw(t, "more") == 0 {
			n = rapid.IntRange(9, 40).Draw(t, "nMore")
		}
		es := make([][2]int, n)
		for i := range es {
			es[i] = [2]int{rapid.IntRange(0, 11).Draw(t, "k"), rapid.IntRange(0, maxV).Draw(t, "v")}
		}
		return MapCase{Entries: es, Nil: rapid.Bool().Draw(t, "nil")}
	},
	Run: RunMap, Quick: 10000, Thorough: 60000, Replicas: 4, ReplicaEvery: 8,
})

func TestC14Maps(t *testing.T) { pbt.Check(t, specMaps) }

// ---- C14.maps.big: maps around the sizes at which Go maps (and possible replacements) change their layout

// mapSizes: 2^b-1, 2^b, 2^b+1 and the growth thresholds of Go's map implementation 6.5*2^b (+-1) up to max.
func mapSizes(max int) []int {
	var ns []int
	for p := 8; p <= max; p *= 2 {
		ns = append(ns, p-1, p, p+1, p*13/16-1, p*13/16, p*13/16+1)
	}
	return ns
}

// bigMapCase builds n entries; key pattern: 0 consecutive, 1 stride 64, 2 MaxInt-i, 3 MinInt+i, 4 i<<32, 5 pseudo-random
// (with repeats, so fewer than n keys remain), 6 descending insertion order. Values cycle through 0..2, one single entry
// holds the value 3 (KeyOf/ContainsValue must find the one holder).
func bigMapCase(n, pattern int) MapCase {
	g := lcg(n*7 + pattern)
	es := make([][2]int, n)
	for i := range es {
		k := i
		switch pattern % 7 {
		case 1:
			k = i * 64
		case 2:
			k = math.MaxInt - i
		case 3:
			k = math.MinInt + i
		case 4:
			k = i << 32
		case 5:
			k = g.next(2*n) - n/2
		case 6:
			k = n - i
		}
		es[i] = [2]int{k, i % 3}
	}
	if n > 0 {
		es[n/2][1] = 3
		if pattern%7 == 5 { // the key of that entry may be overwritten by a later duplicate: make it unique
			es[n/2][0] = 3 * n
		}
	}
	return MapCase{Entries: es}
}

var specMapsBig = pbt.Register(&pbt.Spec[MapCase]{
	Property: "C14", Name: "C14.maps.big",
	Rule: "enumerated: n entries for n in {2^b-1, 2^b, 2^b+1, 6.5*2^(b-3) and its neighbours} for 2^b in 8..4096 (thorough: ..2^18; quick: additionally 2^14+1, 2^15-1, 2^16 and 6.5*2^13+1 entries with two key patterns each) x key pattern " +
		"(consecutive, stride 64, MaxInt-i, MinInt+i, i<<32, pseudo-random with repeated keys, descending), values i%3 and a single entry holding 3; " +
		"rapid: size class 10/40/150/600 (up to twice that), keys drawn from -r..r with r in {n, 4n, 2^40} optionally shifted to the top or bottom of the int range, values 0..3; " + mapRule,
	Enum: func(shard, shards int, tier string, yield func(MapCase) bool) {
		max := 4096
		if tier == "thorough" {
			max = 1 << 18
		}
		i := 0
		for _, n := range mapSizes(max) {
			for pattern := 0; pattern < 7; pattern++ {
				i++
				if i%shards != shard {
					continue
				}
				if !yield(bigMapCase(n, pattern)) {
					return
				}
			}
		}
		if tier != "thorough" { // the sizes 2^14, 2^15, 2^16 in the quick tier: one size of each group, two key patterns
			for j, n := range []int{1<<14 + 1, 1<<15 - 1, 1 << 16, 1<<16*13/16 + 1} {
				for _, pattern := range []int{j % 5, 5} {
					if !yield(bigMapCase(n, pattern)) {
						return
					}
				}
			}
		}
	},
	Gen: func(t *rapid.T) MapCase {
		class := rapid.SampledFrom([]int{10, 40, 150, 600}).Draw(t, "sizeclass")
		r := rapid.SampledFrom([]int{class, 4 * class, 1 << 40}).Draw(t, "keyRange")
		shift := rapid.SampledFrom([]int{0, 0, math.MaxInt - r, math.MinInt + r}).Draw(t, "keyShift")
		es := rapid.SliceOfN(rapid.Custom(func(t *rapid.T) [2]int {
			return [2]int{rapid.IntRange(-r, r).Draw(t, "k") + shift, rapid.IntRange(0, 3).Draw(t, "v")}
		}), class, 2*class).Draw(t, "entries")
		return MapCase{Entries: es}
	},
	Run: RunMap, Quick: 300, Thorough: 2000, Replicas: 4, ReplicaEvery: 8,
})

func TestC14MapsBig(t *testing.T) { pbt.Check(t, specMapsBig) }
