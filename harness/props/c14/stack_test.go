package c14

import (
	"fmt"
	"testing"
	"unsafe"

	"gopkg.in/typ.v4/maps"
	"gopkg.in/typ.v4/slices"
	"pgregory.net/rapid"
	"verifharness/internal/pbt"
)

// C14.stack: the input's backing array is a LOCAL fixed-size array of the calling function. Nothing in stackRound lets it escape
// (checked with -gcflags=-m when this file was written: no "moved to heap: arr"), so it lives on the goroutine stack - as long as the
// library's helpers do not let their argument escape either, which is what a caller with a local array relies on. Every round runs
// in a goroutine of its own (a small fresh stack): the helpers are called, their results kept in locals, then a deep recursion
// forces the stack to grow - it is copied, the array now lives at another address and the Trim results (sub-slices of it) are
// adjusted by the runtime - and everything is compared with the expectations, which were computed on a heap copy by naive loops;
// then the helpers run again at the new address. Successive rounds of one case use DIFFERENT contents at the SAME stack address
// (same function, same depth), and one round in between runs deeper in the stack: anything the library remembers by address is wrong.

const stackN = 24

// SCase: Rounds[i] is the content of round i (up to 24 values 0..5); M is the keyer's modulus.
type SCase struct {
	Rounds [][]int `json:"rounds"`
	M      int     `json:"m"`
	Depth  int     `json:"depth"` // frames of 1 KiB the recursion pushes (at least 16)
}

// stackWant holds what the helpers must return for one content (computed on the heap copy).
type stackWant struct {
	orig             []int
	m                int
	fold, foldR      int
	mapped, filtered []int
	distinct, dfunc  []int
	except           []int
	groups           []slices.Grouping[int, int]
	lo, hi, lo2      int // Trim with the end values unwanted: s[lo:hi]; TrimLeft: s[lo2:]; TrimRight: s[:hi]
	index            [8]int
}

func newStackWant(orig []int, m int) *stackWant {
	w := &stackWant{orig: orig, m: m, fold: 7, foldR: 7}
	n := len(orig)
	for i, v := range orig {
		w.fold = w.fold*31 + v
		w.foldR = w.foldR*31 + orig[n-1-i]
		w.mapped = append(w.mapped, v*3+1)
		if v%m == 0 {
			w.filtered = append(w.filtered, v)
		}
		if !has(w.distinct, v) {
			w.distinct = append(w.distinct, v)
		}
		dup := false
		for _, x := range w.dfunc {
			dup = dup || x%m == v%m
		}
		if !dup {
			w.dfunc = append(w.dfunc, v)
		}
		if v != 1 && v != 4 {
			w.except = append(w.except, v)
		}
	}
	w.groups = groupsOf(orig, func(v int) int { return v % m })
	unw := func(v int) bool { return n > 0 && (v == orig[0] || v == orig[n-1]) }
	w.hi = n
	for w.hi > 0 && unw(orig[w.hi-1]) {
		w.hi--
	}
	for w.lo2 < n && unw(orig[w.lo2]) {
		w.lo2++
	}
	for w.lo < w.hi && unw(orig[w.lo]) {
		w.lo++
	}
	for p := range w.index {
		w.index[p] = -1
		for i, v := range orig {
			if v == p-1 {
				w.index[p] = i
				break
			}
		}
	}
	return w
}

// burn pushes depth frames of about 1 KiB each and returns a value that depends on all of them.
//
//go:noinline
func burn(depth int, x byte) int {
	var pad [1024]byte
	for i := range pad {
		pad[i] = x + byte(i)
	}
	if depth <= 0 {
		return int(pad[int(x)%len(pad)])
	}
	return burn(depth-1, x+1) + int(pad[int(x+7)%len(pad)])
}

// stackCalls calls every helper on s (which lives in the caller's frame) and compares with w. Nothing here may let s escape:
// messages only mention the heap copy.
func stackCalls(s myInts, w *stackWant, when string) string {
	m, n := w.m, len(w.orig)
	bad := func(op string) string {
		return fmt.Sprintf("%s on a slice of a local array holding %v (%s) differs from its definition", op, w.orig, when)
	}
	if slices.Fold(s, 7, func(st, v int) int { return st*31 + v }) != w.fold {
		return bad("Fold(s, 7, 31st+v)")
	}
	if slices.FoldReverse(s, 7, func(st, v int) int { return st*31 + v }) != w.foldR {
		return bad("FoldReverse(s, 7, 31st+v)")
	}
	if !eqInts(slices.Map(s, func(v int) int { return v*3 + 1 }), w.mapped) {
		return bad("Map(s, 3v+1)")
	}
	if got, err := slices.MapErr(s, func(v int) (int, error) { return v*3 + 1, nil }); err != nil || !eqInts(got, w.mapped) {
		return bad("MapErr(s, 3v+1)")
	}
	if !eqInts(slices.Filter(s, func(v int) bool { return v%m == 0 }), w.filtered) {
		return bad(fmt.Sprintf("Filter(s, v%%%d == 0)", m))
	}
	if slices.Any(s, func(v int) bool { return v%m == 0 }) != (len(w.filtered) > 0) || slices.All(s, func(v int) bool { return v%m == 0 }) != (len(w.filtered) == n) {
		return bad(fmt.Sprintf("Any / All(s, v%%%d == 0)", m))
	}
	for p := range w.index {
		p := p
		if slices.Index(s, p-1) != w.index[p] || slices.IndexFunc(s, func(v int) bool { return v == p-1 }) != w.index[p] ||
			slices.Contains(s, p-1) != (w.index[p] >= 0) || slices.ContainsFunc(s, p-1, func(a, b int) bool { return a == b }) != (w.index[p] >= 0) {
			return bad(fmt.Sprintf("Index / IndexFunc / Contains / ContainsFunc(s, %d)", p-1))
		}
	}
	if !eqInts(slices.Distinct(s), w.distinct) {
		return bad("Distinct(s)")
	}
	if !eqInts(slices.DistinctFunc(s, func(a, b int) bool { return a%m == b%m }), w.dfunc) {
		return bad(fmt.Sprintf("DistinctFunc(s, a%%%d == b%%%d)", m, m))
	}
	excl := [2]int{1, 4} // a local array, too
	if !eqInts(slices.Except(s, excl[:]), w.except) || !eqInts(slices.ExceptSet(s, maps.NewSetFromSlice(myInts(excl[:]))), w.except) {
		return bad("Except / ExceptSet(s, [1 4])")
	}
	if msg := checkGroups(fmt.Sprintf("GroupBy(s, v%%%d) on a slice of a local array", m), when, n, slices.GroupBy(s, func(v int) int { return v % m }), w.groups); msg != "" {
		return msg
	}
	if msg := checkCounts(fmt.Sprintf("CountBy(s, v%%%d) on a slice of a local array", m), when, slices.CountBy(s, func(v int) int { return v % m }), w.groups); msg != "" {
		return msg
	}
	for i := -1; i <= n; i++ {
		in := i >= 0 && i < n
		wv, wo := 0, 77
		if in {
			wv, wo = w.orig[i], w.orig[i]
		}
		if v, ok := slices.TryGet(s, i); ok != in || v != wv || slices.SafeGet(s, i) != wv || slices.SafeGetOr(s, i, 77) != wo {
			return bad(fmt.Sprintf("TryGet / SafeGet / SafeGetOr(s, %d)", i))
		}
	}
	if n > 0 && slices.Last(s) != w.orig[n-1] {
		return bad("Last(s)")
	}
	return ""
}

// isSub: got is s[lo:hi], by address.
func isSub(got, s myInts, lo, hi int) bool {
	return len(got) == hi-lo && (len(got) == 0 || &got[0] == &s[lo])
}

// stackRound: see the comment at the top of the file. pre > 0 runs the round that many KiB deeper in the stack.
//
//go:noinline
func stackRound(w *stackWant, depth, pre int, moved *bool) string {
	if pre > 0 {
		var pad [1024]byte
		pad[pre%1024] = byte(pre)
		msg := stackRound(w, depth, pre-1, moved)
		if pad[pre%1024] != byte(pre) {
			return "harness error"
		}
		return msg
	}
	var arr [stackN]int
	var ends [2]int
	n := copy(arr[:], w.orig)
	s := myInts(arr[:n])
	unw := myInts(ends[:0])
	if n > 0 {
		ends[0], ends[1] = arr[0], arr[n-1]
		unw = ends[:]
	}
	isUnw := func(v int) bool { return n > 0 && (v == ends[0] || v == ends[1]) }
	before := uintptr(unsafe.Pointer(&arr))
	if msg := stackCalls(s, w, "first calls on the fresh stack"); msg != "" {
		return msg
	}
	// results kept across the growth of the stack
	t1, t2, t3 := slices.Trim(s, unw), slices.TrimLeft(s, unw), slices.TrimRight(s, unw)
	t4, t5, t6 := slices.TrimFunc(s, isUnw), slices.TrimLeftFunc(s, isUnw), slices.TrimRightFunc(s, isUnw)
	mapped := slices.Map(s, func(v int) int { return v*3 + 1 })
	distinct := slices.Distinct(s)
	groups := slices.GroupBy(s, func(v int) int { return v % w.m })
	fold := slices.Fold(s, 7, func(st, v int) int { return st*31 + v })
	sink := burn(depth, byte(n)) // the stack grows and moves
	after := uintptr(unsafe.Pointer(&arr))
	if after != before {
		*moved = true
	}
	if !eqInts(s, w.orig) {
		return fmt.Sprintf("the input (a local array holding %v) has changed after the calls and a stack growth (checksum of the recursion %d)", w.orig, sink)
	}
	if !isSub(t1, s, w.lo, w.hi) || !isSub(t4, s, w.lo, w.hi) || !isSub(t2, s, w.lo2, n) || !isSub(t5, s, w.lo2, n) || !isSub(t3, s, 0, w.hi) || !isSub(t6, s, 0, w.hi) {
		return fmt.Sprintf("Trim family on a slice of a local array holding %v with its two end values unwanted: after the stack has grown the results are no longer the sub-slices s[%d:%d], s[%d:], s[:%d] of the argument (lengths %d %d %d %d %d %d)",
			w.orig, w.lo, w.hi, w.lo2, w.hi, len(t1), len(t2), len(t3), len(t4), len(t5), len(t6))
	}
	if !eqInts(t1, w.orig[w.lo:w.hi]) || !eqInts(mapped, w.mapped) || !eqInts(distinct, w.distinct) || fold != w.fold {
		return fmt.Sprintf("results of Trim / Map / Distinct / Fold on a slice of a local array holding %v, kept across a growth of the stack, have changed", w.orig)
	}
	if msg := checkGroups("GroupBy result kept across a growth of the stack,", "input: a local array", n, groups, w.groups); msg != "" {
		return msg
	}
	return stackCalls(s, w, "second calls, after the stack has grown and moved")
}

func RunStack(c SCase) pbt.Outcome {
	m := c.M
	if m < 1 {
		m = 1
	}
	depth := c.Depth
	if depth < 16 {
		depth = 16
	}
	if depth > 4096 {
		depth = 4096
	}
	out := pbt.Outcome{}
	moved := false
	for r, content := range c.Rounds {
		if len(content) > stackN {
			content = content[:stackN]
		}
		w := newStackWant(append([]int{}, content...), m)
		pre := 0
		if r%3 == 2 {
			pre = 3 // this round's array lies 3 KiB deeper
		}
		done := make(chan string, 1)
		go func() { done <- stackRound(w, depth+r, pre, &moved) }()
		if msg := <-done; msg != "" {
			return pbt.Fail("round %d of %v (every round: a goroutine of its own with the content in a local array, the helpers, a recursion of %d KiB, the helpers again): %s", r, c.Rounds, depth+r, msg)
		}
		out.Evals += 60
	}
	out.NonTrivial = len(c.Rounds) >= 2 && moved
	if moved {
		out.Labels = append(out.Labels, "array-moved-with-the-stack")
	} else {
		out.Labels = append(out.Labels, "array-did-not-move")
	}
	out.Labels = append(out.Labels, fmt.Sprintf("rounds:%d", len(c.Rounds)))
	return out
}

var specStack = pbt.Register(&pbt.Spec[SCase]{
	Property: "C14", Name: "C14.stack",
	Rule: "case = 1..6 rounds, each with a content of 0..24 values 0..5, a modulus and a recursion depth. Every round runs in a fresh goroutine: the content is copied into a LOCAL [24]int array that nothing lets escape (it lives on the " +
		"goroutine stack), every slice helper is called on a slice of it (the unwanted list of the Trim family and the exclude list are local arrays, too) and compared with naive loops run on a heap copy; the results of the six Trim " +
		"functions, Map, Distinct, GroupBy and Fold are kept in locals while a recursion of depth x 1 KiB forces the stack to grow (the array moves), then compared again (Trim results: still the sub-slices, by address, of the moved array), " +
		"and every helper is called again. Successive rounds put different contents at the same stack address; every third round lies 3 KiB deeper. Enumerated: pairs and triples of contents from a fixed list (empty, single, duplicates, full 24); " +
		"rapid: random contents. Non-trivial = at least two rounds and the array did move",
	Enum: func(shard, shards int, tier string, yield func(SCase) bool) {
		contents := [][]int{{}, {3}, {1, 2, 1, 4, 2, 5}, {5, 2, 4, 1, 2, 1}, {0, 0, 0}, {4, 1, 1, 4}, bigSlice("lag", 6)[:12], bigSlice("random", 6)[:15], append(bigSlice("twice", 6), bigSlice("palindrome", 6)...)}
		i := 0
		for a := range contents {
			for b := range contents {
				i++
				if i%shards != shard {
					continue
				}
				c := SCase{Rounds: [][]int{contents[a], contents[b], contents[(a+b)%len(contents)], contents[a]}, M: 1 + i%3, Depth: []int{16, 64, 300}[i%3]}
				if !yield(c) {
					return
				}
			}
		}
	},
	Gen: func(t *rapid.T) SCase {
		rounds := rapid.SliceOfN(rapid.SliceOfN(rapid.IntRange(0, 5), 0, stackN), 1, 6).Draw(t, "rounds")
		for i := range rounds {
			if rounds[i] == nil {
				rounds[i] = []int{}
			}
		}
		return SCase{Rounds: rounds, M: rapid.IntRange(1, 4).Draw(t, "m"), Depth: rapid.SampledFrom([]int{16, 32, 100, 1000}).Draw(t, "depth")}
	},
	Run: RunStack, Quick: 300, Thorough: 10000, Replicas: 4, ReplicaEvery: 8,
})

func TestC14Stack(t *testing.T) { pbt.Check(t, specStack) }
