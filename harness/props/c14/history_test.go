package c14

import (
	"fmt"
	"runtime"
	"sort"
	"strconv"
	"testing"
	"time"

	"gopkg.in/typ.v4/maps"
	"gopkg.in/typ.v4/slices"
	"pgregory.net/rapid"
	"verifharness/internal/pbt"
)

// C14.history: the other units call every helper once on one input and look at the result at once. Here a case is a
// HISTORY of calls on two or three live inputs used alternately (slices, and the same data as maps): every result is
// kept and looked at again after every later call (a result must stay what it was: no scratch memory handed out twice),
// calls can be ABORTED by their callback (panic recovered by the caller, or runtime.Goexit in a goroutine of its own)
// and are then followed by the same helper on another input (and on the same one), the garbage collector can run
// before a call or from inside a callback, and an input can be a temporary that only the callee references.
// C14.repeat runs a single call 2^16+ times (counters of that width wrap).

// HStep is one call. Op is reduced modulo the number of helpers, On modulo the number of inputs.
type HStep struct {
	Op   int `json:"op"`
	On   int `json:"on"`
	P    int `json:"p"`    // parameter: modulus 1+P%4, threshold P%7, probe value P%7-1, fold seed P, failing call / index P%(n+2)
	Mode int `json:"mode"` // see the mode* constants
	Q    int `json:"q"`    // the callback invocation (1-based, counted over the call) at which Mode strikes
}

// HCase is one history.
type HCase struct {
	Inputs [][]int `json:"inputs"` // 1..3 inputs, values 0..5
	// Layout 0: every input has a backing array of its own (with poisoned spare capacity); otherwise all inputs are adjacent
	// sub-slices of ONE shared buffer, in an order rotated by Layout, each with a capacity that reaches over its neighbours
	Layout int     `json:"layout"`
	Steps  []HStep `json:"steps"`
	// Collect: how many steps of this case may really run the garbage collector (collections are expensive); further
	// collecting steps fall back to their non-collecting variant (plain / temporary input)
	Collect int `json:"collect,omitempty"`
	Reps    int `json:"reps,omitempty"` // C14.repeat: every step is executed Reps times in a row and nothing is kept
	SleepMs int `json:"sleep_ms,omitempty"` // C14.time: how long a step of mode sleep-before-call sleeps (0: not at all)
}

const (
	modePlain     = 0
	modePanic     = 1 // the callback panics at its Q-th invocation; the caller recovers; then the same helper runs on the next input and on this one
	modeGoexit    = 2 // the call runs in a goroutine of its own whose callback calls runtime.Goexit at its Q-th invocation; follow-up calls as for modePanic, the first of them from a deferred function of the dying goroutine
	modeGCBefore  = 3 // runtime.GC() before the call
	modeTemporary = 4 // the input is a copy built inside the call expression (only the callee references it)
	modeTempGC    = 5 // modeTemporary, and the callback runs runtime.GC() and allocates same-sized junk at its Q-th invocation
	modeGCInside  = 6 // the callback runs runtime.GC() at its Q-th invocation
	modeSleep     = 7 // time.Sleep(SleepMs) before the call: wall-clock time passes between two calls (only the enumerated cases of C14.time use it)
	numModes      = 8
)

var modeNames = []string{"plain", "callback-panics", "callback-goexits", "gc-before-call", "temporary-input", "temporary-input+gc-in-callback", "gc-in-callback", "sleep-before-call"}

type abortSentinel struct{}

// ticker is called first thing by every callback the harness hands to the library.
type ticker struct {
	mode, q, calls int
	struck         bool
	junk           *[][]int
	size           int
}

func (t *ticker) tick() {
	if t == nil {
		return
	}
	t.calls++
	if t.calls != t.q {
		return
	}
	switch t.mode {
	case modePanic:
		t.struck = true
		panic(abortSentinel{})
	case modeGoexit:
		t.struck = true
		runtime.Goexit()
	case modeTempGC, modeGCInside:
		t.struck = true
		runtime.GC()
		for i := 0; i < 4; i++ { // whatever the collector freed is handed out again and filled with junk
			j := make([]int, t.size)
			for k := range j {
				j[k] = -5555
			}
			*t.junk = append(*t.junk, j)
		}
	}
}

type keptResult struct {
	check    func() string // "" while the earlier result is what it was
	scribble func()        // overwrites the result (up to its capacity)
}

type hist struct {
	c       HCase
	k       int
	buf     []int // the shared buffer (Layout>0)
	in      []myInts
	backs   [][]int // full-capacity views of the inputs
	snaps   [][]int
	orig    [][]int // the model's private copies
	inMaps  []myMap // input i as a map position->value
	kept    []keptResult
	keep    bool
	junk    [][]int
	gcs     int
	out     pbt.Outcome
	opsSeen map[string]bool
}

func newHist(c HCase) *hist {
	h := &hist{c: c, keep: c.Reps <= 1, opsSeen: map[string]bool{}}
	for _, x := range c.Inputs {
		h.orig = append(h.orig, append([]int{}, x...))
	}
	if len(h.orig) == 0 {
		h.orig = [][]int{{}}
	}
	h.k = len(h.orig)
	h.in = make([]myInts, h.k)
	if c.Layout == 0 {
		for i, x := range h.orig {
			back := make([]int, len(x)+i%3)
			for j := range back {
				back[j] = poison
			}
			copy(back, x)
			h.in[i] = back[:len(x):len(back)]
			h.backs = append(h.backs, back)
		}
	} else {
		total := 3
		for _, x := range h.orig {
			total += len(x)
		}
		h.buf = make([]int, total)
		for j := range h.buf {
			h.buf[j] = poison
		}
		at := 1
		for r := 0; r < h.k; r++ {
			i := (r + c.Layout) % h.k
			copy(h.buf[at:], h.orig[i])
			h.in[i] = h.buf[at : at+len(h.orig[i])] // capacity up to the end of the buffer
			at += len(h.orig[i])
		}
		h.backs = [][]int{h.buf}
	}
	for _, b := range h.backs {
		h.snaps = append(h.snaps, append([]int{}, b...))
	}
	for _, x := range h.orig {
		m := myMap{}
		for pos, v := range x {
			m[pos] = v
		}
		h.inMaps = append(h.inMaps, m)
	}
	return h
}

func (h *hist) describe() string {
	lay := "every input in a backing array of its own"
	if h.c.Layout != 0 {
		lay = "the inputs are adjacent sub-slices of one shared buffer"
	}
	return fmt.Sprintf("inputs %v (%s; the maps are position->value of the same data)", h.orig, lay)
}

// intact: no input (slice up to its full capacity, shared buffer, map) has changed.
func (h *hist) intact() string {
	for i, b := range h.backs {
		for j := range b {
			if b[j] != h.snaps[i][j] {
				return fmt.Sprintf("an input was modified: backing array %d is now %v, was %v", i, b, h.snaps[i])
			}
		}
	}
	for i, m := range h.inMaps {
		if len(m) != len(h.orig[i]) {
			return fmt.Sprintf("input map %d was modified: %d entries, was %d", i, len(m), len(h.orig[i]))
		}
		for pos, v := range h.orig[i] {
			if got, ok := m[pos]; !ok || got != v {
				return fmt.Sprintf("input map %d was modified: key %d now holds (%d, %v), was %d", i, pos, got, ok, v)
			}
		}
	}
	return ""
}

// arg is the slice handed to the library: the live input, or a temporary copy that nothing else references.
func (h *hist) arg(on int, temporary bool) myInts {
	if !temporary {
		return h.in[on]
	}
	return append(make(myInts, 0, len(h.orig[on])+1), h.orig[on]...)
}

func (h *hist) keepInts(name string, got []int, want []int) {
	if !h.keep {
		return
	}
	w := append([]int{}, want...)
	h.kept = append(h.kept, keptResult{
		check: func() string {
			if !eqInts(got, w) {
				return fmt.Sprintf("the result of the earlier call %s, which was %v, has become %v after later calls", name, w, got)
			}
			return ""
		},
		scribble: func() {
			full := got[:cap(got)]
			for i := range full {
				full[i] = scribble
			}
		},
	})
}

func histGroups[K comparable](h *hist, name string, arg myInts, v []int, keyer func(int) K, tk *ticker) string {
	got := slices.GroupBy(arg, func(x int) K { tk.tick(); return keyer(x) })
	want := groupsOf(v, keyer)
	if msg := checkGroups(name, "the input is in the history below", len(v), got, want); msg != "" {
		return msg
	}
	if h.keep {
		if msg := growGroups(name, "the input is in the history below", got, scribble, sameInt); msg != "" {
			return msg
		}
		h.kept = append(h.kept, keptResult{
			check: func() string {
				if msg := checkGroups("the result of the earlier call "+name+", looked at again after later calls,", "the input is in the history below", len(v), got, want); msg != "" {
					return msg
				}
				return ""
			},
			scribble: func() {
				for i := range got {
					full := got[i].Values[:cap(got[i].Values)]
					for j := range full {
						full[j] = scribble
					}
				}
				full := got[:cap(got)]
				for i := range full {
					full[i] = slices.Grouping[K, int]{}
				}
			},
		})
	}
	return ""
}

func histCounts[K comparable](h *hist, name string, arg myInts, v []int, keyer func(int) K, tk *ticker) string {
	got := slices.CountBy(arg, func(x int) K { tk.tick(); return keyer(x) })
	want := groupsOf(v, keyer)
	if msg := checkCounts(name, "the input is in the history below", got, want); msg != "" {
		return msg
	}
	if h.keep {
		h.kept = append(h.kept, keptResult{
			check: func() string {
				return checkCounts("the result of the earlier call "+name+", looked at again after later calls,", "the input is in the history below", got, want)
			},
			scribble: func() {
				full := got[:cap(got)]
				for i := range full {
					full[i] = slices.Counting[K]{Count: scribble}
				}
			},
		})
	}
	return ""
}

func (h *hist) keepMap(name string, got myMap, want []int) {
	if !h.keep {
		return
	}
	w := append([]int{}, want...)
	h.kept = append(h.kept, keptResult{
		check: func() string {
			if len(got) != len(w) {
				return fmt.Sprintf("the result of the earlier call %s, a map position->value of %v, has become %v after later calls", name, w, sortedPairs(got))
			}
			for pos, v := range w {
				if g, ok := got[pos]; !ok || g != v {
					return fmt.Sprintf("the result of the earlier call %s, a map position->value of %v, has become %v after later calls", name, w, sortedPairs(got))
				}
			}
			return ""
		},
		scribble: func() {
			for pos := range w {
				got[pos] = scribble
			}
			got[-1] = scribble
			delete(got, 0)
		},
	})
}

var histOps = []string{"Fold", "FoldReverse", "Map(int)", "Map(string)", "MapErr", "Filter", "Any", "All", "IndexFunc", "TrimFunc", "TrimLeftFunc", "TrimRightFunc",
	"ContainsFunc", "DistinctFunc", "GroupBy(int key)", "GroupBy(string key)", "GroupBy(bool key)", "CountBy(int key)", "CountBy(string key)", "CountBy(bool key)",
	"Distinct", "Except", "ExceptSet", "Index+Contains", "Trim", "TrimLeft", "TrimRight", "TryGet+SafeGet+SafeGetOr+Last",
	"maps.Clone", "maps.Keys", "maps.Values", "maps.KeyOf+ContainsValue+HasKey", "maps.Clone+Clear",
	"Distinct([]any)", "Index+Contains([]any)", "Except([]any)", "Trim([]any)", "GroupBy(any key)", "CountBy(any key)"}

// histCallbackOps: the helpers 0..this-1 take a callback (and can be aborted by it); the helpers from histAnyOps on work
// on interface values and can be aborted by a run-time panic of == or of hashing (two values holding slices).
const (
	histCallbackOps = 20
	histAnyOps      = 33
)

type bombT []int

func anysOf(v []int) named[any] {
	r := make(named[any], len(v))
	for i, x := range v {
		r[i] = x
	}
	return r
}

func eqAnys(got []any, want []int) bool {
	if len(got) != len(want) {
		return false
	}
	for i := range got {
		if got[i] != any(want[i]) {
			return false
		}
	}
	return true
}

// doAny: the helpers on []any made of the input's ints. With a "bomb" the slice (and the list / the keys) additionally hold two
// values of a slice type: the call then dies inside the library with a run-time panic (comparing uncomparable type / hash of
// unhashable type), which is the language's doing and recovered here; whether it does is not asserted - only that the plain
// calls that follow are right.
func (h *hist) doAny(op, on, p int, tk *ticker) string {
	v := h.orig[on]
	other := h.orig[(on+1)%h.k]
	name := histOps[op] + " on input " + strconv.Itoa(on)
	if tk != nil && tk.mode == modePanic {
		at := abs(tk.q) % (len(v) + 1)
		arg := append(append(append(named[any]{}, anysOf(v[:at])...), bombT{1}), anysOf(v[at:])...)
		arg = append(arg, bombT{2})
		func() {
			defer func() {
				if r := recover(); r != nil {
					if _, ok := r.(runtime.Error); !ok {
						panic(r)
					}
					tk.struck = true
				}
			}()
			switch op - histAnyOps {
			case 0:
				slices.Distinct(arg)
			case 1:
				slices.Index(arg, any(bombT{3}))
				slices.Contains(arg, any(bombT{3}))
			case 2:
				slices.Except(arg, anysOf(other))
			case 3:
				slices.Trim(arg, named[any]{bombT{4}})
			case 4:
				slices.GroupBy(arg, func(x any) any { return x })
			case 5:
				slices.CountBy(arg, func(x any) any { return x })
			}
		}()
		return ""
	}
	arg := anysOf(v)
	bad := func(got, want any) string {
		return fmt.Sprintf("%s (the ints of the input as interface values; next input %v) = %v, want %v", name, other, got, want)
	}
	keep := func(got []any, want []int) string {
		if !eqAnys(got, want) {
			return bad(got, want)
		}
		if h.keep {
			w := append([]int{}, want...)
			h.kept = append(h.kept, keptResult{check: func() string {
				if !eqAnys(got, w) {
					return fmt.Sprintf("the result of the earlier call %s, which was %v, has become %v after later calls", name, w, got)
				}
				return ""
			}, scribble: func() {
				for i := range got[:cap(got)] {
					got[:cap(got)][i] = "SCRIBBLE"
				}
			}})
		}
		return ""
	}
	inOther := func(x int) bool { return has(other, x) }
	switch op - histAnyOps {
	case 0:
		var want []int
		for _, x := range v {
			if !has(want, x) {
				want = append(want, x)
			}
		}
		return keep(slices.Distinct(arg), want)
	case 1:
		probe := abs(p)%7 - 1
		want := -1
		for i := len(v) - 1; i >= 0; i-- {
			if v[i] == probe {
				want = i
			}
		}
		if got := slices.Index(arg, any(probe)); got != want {
			return bad(got, want)
		}
		if got := slices.Contains(arg, any(probe)); got != (want >= 0) {
			return bad(got, want >= 0)
		}
	case 2:
		var want []int
		for _, x := range v {
			if !inOther(x) {
				want = append(want, x)
			}
		}
		return keep(slices.Except(arg, anysOf(other)), want)
	case 3:
		lo, hi := 0, len(v)
		for hi > 0 && inOther(v[hi-1]) {
			hi--
		}
		for lo < hi && inOther(v[lo]) {
			lo++
		}
		if got := slices.Trim(arg, anysOf(other)); !eqAnys(got, v[lo:hi]) {
			return bad(got, v[lo:hi])
		}
	case 4:
		got := slices.GroupBy(arg, func(x any) any { return x })
		want := groupsOf(v, func(x int) int { return x })
		ok := len(got) == len(want)
		for i := 0; ok && i < len(got); i++ {
			ok = got[i].Key == any(want[i].Key) && eqAnys(got[i].Values, want[i].Values)
		}
		if !ok {
			return bad(got, want)
		}
	case 5:
		got := slices.CountBy(arg, func(x any) any { return x })
		want := groupsOf(v, func(x int) int { return x })
		ok := len(got) == len(want)
		for i := 0; ok && i < len(got); i++ {
			ok = got[i].Key == any(want[i].Key) && got[i].Count == len(want[i].Values)
		}
		if !ok {
			return bad(got, fmt.Sprintf("the sizes of the groups %v", want))
		}
	}
	return ""
}

func abs(x int) int {
	if x < 0 {
		if x == -x {
			return 0
		}
		return -x
	}
	return x
}

// do executes one call and checks its result against the definition; "" = fine.
func (h *hist) do(op, on, p int, tk *ticker, temporary bool) string {
	if op >= histAnyOps {
		return h.doAny(op, on, p, tk)
	}
	v := h.orig[on]
	other := h.orig[(on+1)%h.k]
	n := len(v)
	m := 1 + abs(p)%4
	thr := abs(p) % 7
	probe := abs(p)%7 - 1
	name := histOps[op]
	bad := func(got, want any) string {
		return fmt.Sprintf("%s on input %d (m=%d, threshold=%d, probe=%d, p=%d) = %v, want %v", name, on, m, thr, probe, p, got, want)
	}
	ints := func(got, want []int) string {
		if !eqInts(got, want) {
			return bad(got, want)
		}
		h.keepInts(name+" on input "+strconv.Itoa(on), got, want)
		return ""
	}
	sub := func(got myInts, lo, hi int) string {
		if !eqInts(got, v[lo:hi]) {
			return bad([]int(got), fmt.Sprintf("s[%d:%d] = %v", lo, hi, v[lo:hi]))
		}
		if !temporary && len(got) > 0 && &got[0] != &h.in[on][lo] {
			return bad("a slice of other memory", "a sub-slice of the argument")
		}
		if h.keep {
			w := append([]int{}, v[lo:hi]...)
			h.kept = append(h.kept, keptResult{check: func() string {
				if !eqInts(got, w) {
					return fmt.Sprintf("the result of the earlier call %s on input %d, which was %v, has become %v after later calls", name, on, w, []int(got))
				}
				return ""
			}, scribble: func() {}})
		}
		return ""
	}
	pred := func(x int) bool { return x%m == 0 }
	eqMod := func(a, b int) bool { return a%m == b%m }
	trimB := func(unwanted func(int) bool) (lo, hi, lo2 int) {
		hi = n
		for hi > 0 && unwanted(v[hi-1]) {
			hi--
		}
		for lo < hi && unwanted(v[lo]) {
			lo++
		}
		for lo2 < n && unwanted(v[lo2]) {
			lo2++
		}
		return
	}
	inOther := func(x int) bool { return has(other, x) }
	switch op {
	case 0, 1:
		want := p
		for i := 0; i < n; i++ {
			if op == 0 {
				want = want*31 + v[i]
			} else {
				want = want*31 + v[n-1-i]
			}
		}
		acc := func(st, x int) int { tk.tick(); return st*31 + x }
		got := 0
		if op == 0 {
			got = slices.Fold(h.arg(on, temporary), p, acc)
		} else {
			got = slices.FoldReverse(h.arg(on, temporary), p, acc)
		}
		if got != want {
			return bad(got, want)
		}
	case 2:
		want := make([]int, n)
		for i, x := range v {
			want[i] = x*10 + 3
		}
		return ints(slices.Map(h.arg(on, temporary), func(x int) int { tk.tick(); return x*10 + 3 }), want)
	case 3:
		got := slices.Map(h.arg(on, temporary), func(x int) string { tk.tick(); return "#" + strconv.Itoa(x) })
		ok := len(got) == n
		for i := 0; ok && i < n; i++ {
			ok = got[i] == "#"+strconv.Itoa(v[i])
		}
		if !ok {
			return bad(got, "\"#\"+str(v) of every element")
		}
		if h.keep {
			h.kept = append(h.kept, keptResult{check: func() string {
				for i := range got {
					if got[i] != "#"+strconv.Itoa(v[i]) {
						return fmt.Sprintf("the result of the earlier call %s on input %d has become %q after later calls", name, on, got)
					}
				}
				return ""
			}, scribble: func() {
				for i := range got[:cap(got)] {
					got[:cap(got)][i] = "SCRIBBLE"
				}
			}})
		}
	case 4:
		j := abs(p) % (n + 2)
		calls := 0
		var errs []*callErr
		for i := 0; i <= n; i++ {
			errs = append(errs, &callErr{i})
		}
		got, err := slices.MapErr(h.arg(on, temporary), func(x int) (int, error) {
			tk.tick()
			c := calls
			calls++
			if c >= j && c < len(errs) {
				return x * 2, errs[c]
			}
			return x*10 + 3, nil
		})
		if j < n {
			if err != error(errs[j]) || len(got) != 0 || calls != j+1 {
				return bad(fmt.Sprint(got, " error ", err, " after ", calls, " calls"), fmt.Sprintf("no result and the error of call %d after %d calls", j, j+1))
			}
			return ""
		}
		if err != nil || calls != n {
			return bad(fmt.Sprint(got, " error ", err, " after ", calls, " calls"), fmt.Sprintf("no error after %d calls", n))
		}
		want := make([]int, n)
		for i, x := range v {
			want[i] = x*10 + 3
		}
		return ints(got, want)
	case 5:
		var want []int
		for _, x := range v {
			if pred(x) {
				want = append(want, x)
			}
		}
		return ints(slices.Filter(h.arg(on, temporary), func(x int) bool { tk.tick(); return pred(x) }), want)
	case 6, 7, 8:
		wAny, wAll, wIdx := false, true, -1
		for i, x := range v {
			if pred(x) {
				wAny = true
				if wIdx < 0 {
					wIdx = i
				}
			} else {
				wAll = false
			}
		}
		f := func(x int) bool { tk.tick(); return pred(x) }
		switch op {
		case 6:
			if got := slices.Any(h.arg(on, temporary), f); got != wAny {
				return bad(got, wAny)
			}
		case 7:
			if got := slices.All(h.arg(on, temporary), f); got != wAll {
				return bad(got, wAll)
			}
		case 8:
			if got := slices.IndexFunc(h.arg(on, temporary), f); got != wIdx {
				return bad(got, wIdx)
			}
		}
	case 9, 10, 11:
		lo, hi, lo2 := trimB(pred)
		f := func(x int) bool { tk.tick(); return pred(x) }
		switch op {
		case 9:
			return sub(slices.TrimFunc(h.arg(on, temporary), f), lo, hi)
		case 10:
			return sub(slices.TrimLeftFunc(h.arg(on, temporary), f), lo2, n)
		case 11:
			return sub(slices.TrimRightFunc(h.arg(on, temporary), f), 0, hi)
		}
	case 12:
		want := false
		for _, x := range v {
			if eqMod(x, probe+1) {
				want = true
			}
		}
		if got := slices.ContainsFunc(h.arg(on, temporary), probe+1, func(a, b int) bool { tk.tick(); return eqMod(a, b) }); got != want {
			return bad(got, want)
		}
	case 13:
		var want []int
		for _, x := range v {
			seen := false
			for _, w := range want {
				if eqMod(w, x) {
					seen = true
				}
			}
			if !seen {
				want = append(want, x)
			}
		}
		return ints(slices.DistinctFunc(h.arg(on, temporary), func(a, b int) bool { tk.tick(); return eqMod(a, b) }), want)
	case 14:
		return histGroups(h, name+" on input "+strconv.Itoa(on), h.arg(on, temporary), v, func(x int) int { return x % m }, tk)
	case 15:
		return histGroups(h, name+" on input "+strconv.Itoa(on), h.arg(on, temporary), v, func(x int) string { return "k" + strconv.Itoa(x%m) }, tk)
	case 16:
		return histGroups(h, name+" on input "+strconv.Itoa(on), h.arg(on, temporary), v, func(x int) bool { return x < thr }, tk)
	case 17:
		return histCounts(h, name+" on input "+strconv.Itoa(on), h.arg(on, temporary), v, func(x int) int { return x % m }, tk)
	case 18:
		return histCounts(h, name+" on input "+strconv.Itoa(on), h.arg(on, temporary), v, func(x int) string { return "k" + strconv.Itoa(x%m) }, tk)
	case 19:
		return histCounts(h, name+" on input "+strconv.Itoa(on), h.arg(on, temporary), v, func(x int) bool { return x < thr }, tk)
	case 20:
		var want []int
		for _, x := range v {
			if !has(want, x) {
				want = append(want, x)
			}
		}
		return ints(slices.Distinct(h.arg(on, temporary)), want)
	case 21, 22:
		var want []int
		for _, x := range v {
			if !inOther(x) {
				want = append(want, x)
			}
		}
		if op == 21 {
			return ints(slices.Except(h.arg(on, temporary), h.arg((on+1)%h.k, temporary)), want)
		}
		ex := make(maps.Set[int])
		for _, x := range other {
			ex.Add(x)
		}
		return ints(slices.ExceptSet[myInts, int](h.arg(on, temporary), ex), want)
	case 23:
		want := -1
		for i := n - 1; i >= 0; i-- {
			if v[i] == probe {
				want = i
			}
		}
		if got := slices.Index(h.arg(on, temporary), probe); got != want {
			return bad(got, want)
		}
		if got := slices.Contains(h.arg(on, temporary), probe); got != (want >= 0) {
			return bad(got, want >= 0)
		}
	case 24, 25, 26:
		lo, hi, lo2 := trimB(inOther)
		list := h.arg((on+1)%h.k, temporary)
		switch op {
		case 24:
			return sub(slices.Trim(h.arg(on, temporary), list), lo, hi)
		case 25:
			return sub(slices.TrimLeft(h.arg(on, temporary), list), lo2, n)
		case 26:
			return sub(slices.TrimRight(h.arg(on, temporary), list), 0, hi)
		}
	case 27:
		i := abs(p)%(n+2) - 1
		in := i >= 0 && i < n
		wv, wor := 0, 77
		if in {
			wv, wor = v[i], v[i]
		}
		if gv, gok := slices.TryGet(h.arg(on, temporary), i); gv != wv || gok != in {
			return bad(fmt.Sprint("TryGet ", gv, gok), fmt.Sprint(wv, in))
		}
		if gv := slices.SafeGet(h.arg(on, temporary), i); gv != wv {
			return bad(fmt.Sprint("SafeGet ", gv), wv)
		}
		if gv := slices.SafeGetOr(h.arg(on, temporary), i, 77); gv != wor {
			return bad(fmt.Sprint("SafeGetOr ", gv), wor)
		}
		if n > 0 {
			if gv := slices.Last(h.arg(on, temporary)); gv != v[n-1] {
				return bad(fmt.Sprint("Last ", gv), v[n-1])
			}
		}
	case 28, 32:
		var cl myMap = maps.Clone(h.inMaps[on])
		ok := cl != nil && len(cl) == n
		for pos := 0; ok && pos < n; pos++ {
			g, present := cl[pos]
			ok = present && g == v[pos]
		}
		if !ok {
			return bad(sortedPairs(cl), "a new map position->value of the input")
		}
		if op == 28 {
			h.keepMap(name+" on input "+strconv.Itoa(on), cl, v)
			return ""
		}
		cl[n] = 5 // a clone that was modified, then cleared, then used again
		maps.Clear(cl)
		if len(cl) != 0 {
			return bad(sortedPairs(cl), "an empty map after Clear")
		}
		cl[0] = 9
		if len(cl) != 1 || cl[0] != 9 {
			return bad(sortedPairs(cl), "a usable map after Clear")
		}
	case 29, 30:
		var got []int
		want := make([]int, n)
		if op == 29 {
			got = maps.Keys(h.inMaps[on])
			for i := range want {
				want[i] = i
			}
		} else {
			got = maps.Values(h.inMaps[on])
			copy(want, v)
			sort.Ints(want)
		}
		sorted := append([]int{}, got...)
		sort.Ints(sorted)
		if !eqInts(sorted, want) {
			return bad(got, fmt.Sprintf("a permutation of %v", want))
		}
		if h.keep { // the order is arbitrary but must not change afterwards
			h.keepInts(name+" on input "+strconv.Itoa(on), got, append([]int{}, got...))
		}
	case 31:
		holders := 0
		for _, x := range v {
			if x == probe {
				holders++
			}
		}
		if got := maps.ContainsValue(h.inMaps[on], probe); got != (holders > 0) {
			return bad(fmt.Sprint("ContainsValue ", got), holders > 0)
		}
		k, ok := maps.KeyOf(h.inMaps[on], probe)
		if ok != (holders > 0) || (ok && (k < 0 || k >= n || v[k] != probe)) {
			return bad(fmt.Sprint("KeyOf ", k, ok), fmt.Sprintf("found=%v and a position holding %d", holders > 0, probe))
		}
		if got, want := maps.HasKey(h.inMaps[on], probe), probe >= 0 && probe < n; got != want {
			return bad(fmt.Sprint("HasKey ", got), want)
		}
	}
	return ""
}

// checkAll: the inputs are intact and every kept result still is what it was.
func (h *hist) checkAll(from int) string {
	if msg := h.intact(); msg != "" {
		return msg
	}
	for _, k := range h.kept[from:] {
		if msg := k.check(); msg != "" {
			return msg
		}
	}
	return ""
}

// step runs one step of the history (with its follow-up calls if it was aborted).
func (h *hist) step(i int, st HStep) string {
	op := ((st.Op % len(histOps)) + len(histOps)) % len(histOps)
	on := ((st.On % h.k) + h.k) % h.k
	mode := ((st.Mode % numModes) + numModes) % numModes
	if mode >= modeGCBefore && mode != modeTemporary && mode != modeSleep {
		if h.gcs >= h.c.Collect {
			if mode == modeTempGC {
				mode = modeTemporary
			} else {
				mode = modePlain
			}
		} else {
			h.gcs++
		}
	}
	if op >= histCallbackOps && (mode == modePanic || mode == modeGoexit || mode == modeGCInside || mode == modeTempGC) && !(op >= histAnyOps && mode == modePanic) {
		mode = modePlain
	}
	where := func(msg string) string {
		return fmt.Sprintf("step %d (%s, mode %s at callback invocation %d): %s\nhistory so far: %v on %s", i, histOps[op], modeNames[mode], st.Q, msg, h.c.Steps[:i+1], h.describe())
	}
	tk := &ticker{mode: mode, q: st.Q, junk: &h.junk, size: len(h.orig[on]) + 1}
	temporary := mode == modeTemporary || mode == modeTempGC
	followUp := func() string {
		// the aborted call must leave nothing behind: the same helper on the next input and on this one, plain
		for _, o := range []int{(on + 1) % h.k, on} {
			if msg := h.do(op, o, st.P, nil, false); msg != "" {
				return "after a call of the same helper that was aborted by its callback: " + msg
			}
		}
		return ""
	}
	var msg string
	switch mode {
	case modePanic:
		func() {
			defer func() {
				if r := recover(); r != nil {
					if _, mine := r.(abortSentinel); !mine {
						panic(r)
					}
				}
			}()
			msg = h.do(op, on, st.P, tk, false)
		}()
		if msg == "" && tk.struck {
			msg = followUp()
		}
	case modeGoexit:
		done := make(chan string)
		go func() {
			res, finished := "", false
			defer func() {
				if r := recover(); r != nil {
					done <- fmt.Sprintf("unexpected panic: %v", r)
					return
				}
				if !finished { // the goroutine is exiting: the follow-up calls run on it, from this deferred function
					res = followUp()
				}
				done <- res
			}()
			res = h.do(op, on, st.P, tk, false)
			finished = true
		}()
		msg = <-done
		if msg == "" && tk.struck {
			msg = followUp()
		}
	case modeGCBefore:
		runtime.GC()
		msg = h.do(op, on, st.P, nil, false)
	case modeSleep:
		if h.c.SleepMs > 0 {
			time.Sleep(time.Duration(h.c.SleepMs) * time.Millisecond)
			h.out.Labels = appendOnce(h.out.Labels, "slept-ms:"+strconv.Itoa(h.c.SleepMs))
		}
		msg = h.do(op, on, st.P, nil, false)
	default:
		msg = h.do(op, on, st.P, tk, temporary)
	}
	h.junk = nil
	if tk.struck {
		h.out.Labels = appendOnce(h.out.Labels, "struck:"+modeNames[mode])
	}
	if msg != "" {
		return where(msg)
	}
	if msg = h.checkAll(0); msg != "" {
		return where("after this call: " + msg)
	}
	h.opsSeen[histOps[op]] = true
	h.out.Evals++
	return ""
}

func appendOnce(l []string, s string) []string {
	for _, x := range l {
		if x == s {
			return l
		}
	}
	return append(l, s)
}

// RunHistory executes a history.
func RunHistory(c HCase) pbt.Outcome {
	h := newHist(c)
	reps := c.Reps
	if reps < 1 {
		reps = 1
	}
	for i, st := range c.Steps {
		for r := 0; r < reps; r++ {
			if msg := h.step(i, st); msg != "" {
				if reps > 1 {
					msg = fmt.Sprintf("repetition %d of %d of the same call: %s", r+1, reps, msg)
				}
				return pbt.Fail("%s", msg)
			}
		}
	}
	// finally every kept result is overwritten in turn: the inputs and the other results must not change
	for i, k := range h.kept {
		k.scribble()
		if msg := h.checkAll(i + 1); msg != "" {
			return pbt.Fail("after overwriting the result of call number %d that returned a slice or map (history %v on %s): that result shares memory with an input or with a later result: %s", i, c.Steps, h.describe(), msg)
		}
	}
	out := h.out
	nonEmpty := 0
	for _, x := range h.orig {
		if len(x) > 0 {
			nonEmpty++
		}
	}
	out.NonTrivial = len(h.opsSeen) >= 3 && nonEmpty >= 2 && len(h.kept) >= 2
	if reps > 1 {
		out.NonTrivial = true
		out.Labels = append(out.Labels, "repetitions:"+strconv.Itoa(reps))
	}
	switch {
	case len(c.Steps) <= 3:
		out.Labels = append(out.Labels, "steps<=3")
	case len(c.Steps) <= 10:
		out.Labels = append(out.Labels, "steps=4..10")
	case len(c.Steps) <= 30:
		out.Labels = append(out.Labels, "steps=11..30")
	default:
		out.Labels = append(out.Labels, "steps>30")
	}
	if c.Layout != 0 {
		out.Labels = append(out.Labels, "inputs-share-one-buffer")
	}
	out.Labels = append(out.Labels, "inputs="+strconv.Itoa(h.k))
	names := make([]string, 0, len(h.opsSeen))
	for k := range h.opsSeen {
		names = append(names, k)
	}
	sort.Strings(names)
	for _, k := range names {
		out.Labels = append(out.Labels, "op:"+k)
	}
	if len(h.kept) >= 5 {
		out.Labels = append(out.Labels, "kept-results>=5")
	}
	return out
}

const histRule = "case = 1..3 inputs (int slices over 0..5, each also as a map position->value; either in arrays of their own with poisoned spare capacity or as adjacent sub-slices of one shared buffer " +
	"with capacities reaching over their neighbours) and a list of steps (helper, input, parameter, mode, q). The helpers: " +
	"Fold, FoldReverse, Map to int and to string, MapErr, Filter, Any, All, IndexFunc, Trim*Func, ContainsFunc, DistinctFunc, GroupBy and CountBy with int, string and bool keys, Distinct, " +
	"Except/ExceptSet/Trim/TrimLeft/TrimRight with the NEXT input as their list, Index+Contains, TryGet+SafeGet+SafeGetOr+Last, maps.Clone, Keys, Values, KeyOf+ContainsValue+HasKey, Clone+modify+Clear+reuse; " +
	"and on the same ints as []any: Distinct, Index+Contains, Except, Trim, GroupBy and CountBy keyed by the element - these can be aborted by a run-time panic inside the library (two values holding slices are put " +
	"into the slice: == / hashing panics; recovered, not asserted) and are then followed by plain calls like every aborted call. " +
	"Every result is compared with a naive loop at once (the groups of a GroupBy result are then grown by appends, one after the other, and re-read), KEPT, and compared again after every later call (and all inputs, up to full capacity, with their snapshot); at the end every kept result is " +
	"overwritten in turn and the inputs and all later results compared once more. Modes: plain; the callback panics at its q-th invocation and the caller recovers; the call runs in a goroutine of its own " +
	"whose callback calls runtime.Goexit at its q-th invocation - an aborted call is followed at once by the same helper on the next input and on the same one (for Goexit first from a deferred function of the dying goroutine); " +
	"runtime.GC() before the call; the input is a temporary copy built inside the call expression (only the callee references it), optionally with runtime.GC() plus four same-sized junk allocations " +
	"from inside the callback at its q-th invocation; runtime.GC() from inside the callback on a live input (collections only in the cases flagged for it - one random case in thirty -, at most two per case). "

func genHistory(t *rapid.T) HCase {
	k := rapid.SampledFrom([]int{1, 2, 2, 2, 3}).Draw(t, "inputs")
	c := HCase{Layout: rapid.SampledFrom([]int{0, 0, 1, 2}).Draw(t, "layout")}
	if rapid.IntRange(0, 29).Draw(t, "collect") == 0 {
		c.Collect = 2
	}
	for i := 0; i < k; i++ {
		x := rapid.SliceOfN(rapid.IntRange(0, 5), 0, 8).Draw(t, "input")
		if x == nil {
			x = []int{}
		}
		c.Inputs = append(c.Inputs, x)
	}
	c.Steps = pbt.OpsOf(t, rapid.Custom(func(t *rapid.T) HStep {
		return HStep{
			Op:   rapid.IntRange(0, len(histOps)-1).Draw(t, "op"),
			On:   rapid.IntRange(0, 2).Draw(t, "on"),
			P:    rapid.IntRange(-3, 30).Draw(t, "p"),
			Mode: rapid.SampledFrom([]int{0, 0, 0, 0, 0, 0, 0, 0, 0, 0, 1, 1, 1, 2, 2, 4, 4, 3, 5, 6}).Draw(t, "mode"),
			Q:    rapid.IntRange(1, 9).Draw(t, "q"),
		}
	}), []int{1, 4, 10, 25}, "steps")
	return c
}

// enumHistory: every helper with a callback aborted (panic, Goexit) at its first, second and fifth callback invocation and
// collected from inside (live and temporary input), on two inputs in both layouts, between a plain call of the same helper
// before and the follow-ups after; then every helper twice in a row on alternating inputs.
func enumHistory(shard, shards int, tier string, yield func(HCase) bool) {
	inputs := [][][]int{{{1, 2, 1, 4, 2, 5}, {3, 1, 3}}, {{0, 0}, {2, 4, 2, 0, 5, 5, 1}, {4}}}
	i := 0
	emit := func(c HCase) bool {
		i++
		if i%shards != shard {
			return true
		}
		return yield(c)
	}
	for op := 0; op < len(histOps); op++ {
		for li, in := range inputs {
			for _, mode := range []int{modePanic, modeGoexit, modeTempGC, modeGCInside, modeTemporary, modeGCBefore} {
				if op >= histCallbackOps && mode != modeTemporary && mode != modeGCBefore && !(op >= histAnyOps && mode == modePanic) {
					continue
				}
				for _, q := range []int{1, 2, 5} {
					if (mode == modeTemporary || mode == modeGCBefore) && q > 1 {
						continue
					}
					if mode >= modeGCBefore && mode != modeTemporary && tier != "thorough" && (li != 0 || (q != 2 && mode != modeGCBefore)) {
						continue // collections are expensive
					}
					p := 1 + op%3 + 4*q
					c := HCase{Inputs: in, Layout: (li + q) % 2, Collect: 1, Steps: []HStep{{Op: op, On: 1, P: p}, {Op: op, On: 0, P: p, Mode: mode, Q: q}, {Op: op, On: 1, P: p}, {Op: (op + 14) % len(histOps), On: 0, P: p}}}
					if !emit(c) {
						return
					}
				}
			}
			var steps []HStep
			for r := 0; r < 4; r++ {
				steps = append(steps, HStep{Op: op, On: r, P: 5 + r/2}, HStep{Op: (op + 1) % len(histOps), On: r + 1, P: 2})
			}
			if !emit(HCase{Inputs: in, Layout: li, Steps: steps}) {
				return
			}
		}
	}
}

var specHistory = pbt.Register(&pbt.Spec[HCase]{
	Property: "C14", Name: "C14.history",
	Rule: histRule + "Enumerated: every helper x (panic, Goexit, collection inside the callback on a live and on a temporary input; q in {1,2,5}; temporary input; collection before) between plain calls of the same helper, " +
		"and every helper four times alternating between the inputs and with its successor; rapid: 1..3 inputs of 0..8 elements, 1..56 steps (size classes 1/4/10/25), " +
		"modes plain 50%, panic 15%, Goexit 10%, temporary 10%, the three collecting modes 5% each. Non-trivial = at least 3 different helpers completed, two non-empty inputs, two kept results",
	Enum: enumHistory, Gen: genHistory, Run: RunHistory, Quick: 3000, Thorough: 40000, Replicas: 4, ReplicaEvery: 8,
})

func TestC14History(t *testing.T) { pbt.Check(t, specHistory) }

// ---- C14.repeat: one cheap call repeated more than 2^16 times

var specRepeat = pbt.Register(&pbt.Spec[HCase]{
	Property: "C14", Name: "C14.repeat",
	Rule: "enumerated: every helper of C14.history (same oracles) called 2^16+300 times in a row on the same small input (6 elements; thorough: also 2^17+300 and 2^18+300 times, and on a second input), " +
		"every single result compared with the naive loop and the inputs compared after every call (a counter of 16 bits inside the library wraps on the way); nothing is kept. " +
		"The 2^32 case is C14.wrap32 (thorough only)",
	Enum: func(shard, shards int, tier string, yield func(HCase) bool) {
		reps := []int{1<<16 + 300}
		inputs := [][][]int{{{1, 2, 1, 4, 2, 5}, {3, 1, 3}}}
		if tier == "thorough" {
			reps = append(reps, 1<<17+300, 1<<18+300)
			inputs = append(inputs, [][]int{{0, 0}, {2, 4, 2, 0, 5, 5, 1}, {4}})
		}
		i := 0
		for _, n := range reps {
			for _, in := range inputs {
				for op := range histOps {
					i++
					if i%shards != shard {
						continue
					}
					if !yield(HCase{Inputs: in, Steps: []HStep{{Op: op, On: op % 2, P: 5 + op%3}}, Reps: n}) {
						return
					}
				}
			}
		}
	},
	Run: RunHistory, CaseCPU: 0,
})

func TestC14Repeat(t *testing.T) { pbt.Check(t, specRepeat) }

// ---- C14.time: wall-clock time passes in the middle of a history

// timeCase: every helper on two (three) inputs alternately, then a call that is preceded by a sleep, then every helper again
// (starting with the one after the sleep), optionally a second sleep and a third round. All results are kept and re-read after
// every call, as in C14.history.
func timeCase(k, sleepMs, sleeps int) HCase {
	inputs := [][][]int{{{1, 2, 1, 4, 2, 5}, {3, 1, 3}}, {{0, 0}, {2, 4, 2, 0, 5, 5, 1}, {4}}}
	c := HCase{Inputs: inputs[k%2], Layout: (k / 2) % 2, SleepMs: sleepMs}
	round := func(from, r int) {
		for j := 0; j < len(histOps); j++ {
			op := (from + j) % len(histOps)
			c.Steps = append(c.Steps, HStep{Op: op, On: j + r, P: 3 + (j+r)%5})
		}
	}
	round(0, 0)
	for r := 1; r <= sleeps; r++ {
		at := (k*7 + r*11) % len(histOps)
		c.Steps = append(c.Steps, HStep{Op: at, On: r, P: 4, Mode: modeSleep})
		if r%2 == 1 { // an aborted call right after the pause, too
			c.Steps = append(c.Steps, HStep{Op: at, On: r + 1, P: 4, Mode: modePanic, Q: 2})
		}
		round(at, r)
	}
	return c
}

var specTime = pbt.Register(&pbt.Spec[HCase]{
	Property: "C14", Name: "C14.time",
	Rule: "enumerated histories of C14.history (same helpers, same oracles: every result compared with the naive loop, kept, and re-read after every later call; inputs compared up to their full capacity after every call; " +
		"all kept results overwritten in turn at the end) in which wall-clock time really passes: every helper once on alternating inputs, then time.Sleep(2.1 s) (thorough: also 5.1 s, and histories with two pauses), " +
		"then the helper at which the pause struck (a different one per case), the same helper aborted by a panic of its callback, and every helper again. Quick: two histories (two inputs in arrays of their own; " +
		"three inputs as adjacent sub-slices of one shared buffer), run in parallel shards",
	Enum: func(shard, shards int, tier string, yield func(HCase) bool) {
		cases := []HCase{timeCase(0, 2100, 1), timeCase(3, 2100, 1)}
		if tier == "thorough" {
			cases = append(cases, timeCase(1, 2100, 2), timeCase(2, 5100, 1), timeCase(5, 5100, 2), timeCase(4, 2100, 1), timeCase(6, 3000, 2), timeCase(7, 5100, 1))
		}
		for i, c := range cases {
			if i%shards == shard && !yield(c) {
				return
			}
		}
	},
	Run: RunHistory, Exhaustive: true, Replicas: 4, ReplicaEvery: 1,
})

func TestC14Time(t *testing.T) { pbt.Check(t, specTime) }
