// Package sched is engine E3: a controlled scheduler for code instrumented
// with the sync2 "verif" hooks. All threads of a case are goroutines that run
// ONE AT A TIME; a thread runs until it reaches a hook (before an atomic access
// or a lock acquisition of the library, or an explicit harness yield), hands
// control back and parks. Which parked thread performs the next step is read
// from the schedule, a list of small ints that is part of the generated Case —
// so the interleaving is an input: explorable, shrinkable, replayable.
package sched

import (
	"fmt"
	"runtime"
	"runtime/debug"
	"strings"
	"sync"
	"time"

	"gopkg.in/typ.v4/sync2"
)

type reqKind uint8

const (
	reqStart reqKind = iota
	reqYield
	reqLock
	reqRLock
)

type tryLocker interface {
	TryLock() bool
	Unlock()
}
type tryRLocker interface {
	TryRLock() bool
	RUnlock()
}

type thread struct {
	id       int
	fn       func(t *T)
	resume   chan struct{}
	kind     reqKind
	site     string
	lk       tryLocker
	rlk      tryRLocker
	done     bool
	panicked bool
	panicVal string
	inLib    bool // harness-maintained: thread is inside a library call
	gid      string
}

// T is the handle a thread body receives.
type T struct {
	s  *S
	th *thread
}

// ID of the thread.
func (t *T) ID() int { return t.th.id }

// Yield is an explicit scheduling point of the harness (between API calls, inside critical sections).
func (t *T) Yield(site string) { t.s.park(t.th, reqYield, site, nil, nil) }

// Now stamps the logical clock (strictly increasing; exactly one thread runs at a time).
func (t *T) Now() int { t.s.clock++; return t.s.clock }

// EnterLib / LeaveLib bracket every library call (used by the C09 independence oracle).
func (t *T) EnterLib() { t.th.inLib = true }
func (t *T) LeaveLib() { t.th.inLib = false }

// Step is one entry of the trace.
type Step struct {
	Thread int    `json:"t"`
	Site   string `json:"site"`
}

// Blocked describes a disabled thread at the moment the scheduler looked at it.
type Blocked struct {
	Thread int
	Site   string
	// OthersOutsideLib: every other live thread is outside a library call
	OthersOutsideLib bool
}

// Result of one run.
type Result struct {
	Trace       []Step
	Deadlock    bool     // no thread enabled, some alive, all parked at hooked lock acquisitions
	DeadlockAt  []string // "thread@site" of the stuck threads
	Panics      []string // "thread N: value\nstack"
	Stuck       string   // non-empty: a thread stopped responding outside the hooks (un-hooked blocking call) – inconclusive
	StuckThread int      // the thread that stopped responding (valid when Stuck != "")
	StuckState  string   // its goroutine wait state ("sync.Mutex.Lock", "semacquire", ...), "" if not established
	StuckStack  string   // its stack
	Preemptions int      // times the scheduler switched away from a thread that could have continued
	InsideSw    int      // preemptions at a library-internal site (not an explicit harness yield)
	Choices     int      // scheduling decisions that had more than one option
	OptCounts   []int    // number of options at each such decision, in order
	Steps       int
}

type event struct {
	th *thread
}

// S is one scheduler instance (one per case).
type S struct {
	threads  []*thread
	ctl      chan event
	cur      *thread
	clock    int
	schedule []int
	pos      int
	// OnBlocked, if set, is called (on the scheduler goroutine, while every thread is parked) each time a
	// thread is found disabled at a lock hook; used by C09's independence oracle.
	OnBlocked func(b Blocked)
	// OnStep, if set, is called before a thread is resumed.
	OnStep   func(thread int, site string)
	MaxSteps int
}

var (
	activeMu sync.Mutex
	active   *S
)

func init() {
	sync2.VerifHooks.Yield = func(site string) {
		if s := active; s != nil {
			s.hook(reqYield, site, nil, nil)
		}
	}
	sync2.VerifHooks.Lock = func(site string, l interface {
		TryLock() bool
		Unlock()
	}) {
		if s := active; s != nil {
			s.hook(reqLock, site, l, nil)
		}
	}
	sync2.VerifHooks.RLock = func(site string, l interface {
		TryRLock() bool
		RUnlock()
	}) {
		if s := active; s != nil {
			s.hook(reqRLock, site, nil, l)
		}
	}
}

// New creates a scheduler for the given schedule (list of choices).
func New(schedule []int) *S {
	return &S{ctl: make(chan event), schedule: schedule, MaxSteps: 20000}
}

// Go registers a thread body. Threads get ids 0,1,2… in registration order.
func (s *S) Go(fn func(t *T)) {
	s.threads = append(s.threads, &thread{id: len(s.threads), fn: fn, resume: make(chan struct{})})
}

func (s *S) hook(k reqKind, site string, l tryLocker, r tryRLocker) {
	th := s.cur
	if th == nil {
		return // library used from outside a managed thread (setup / postlude on the scheduler goroutine)
	}
	s.park(th, k, site, l, r)
}

func (s *S) park(th *thread, k reqKind, site string, l tryLocker, r tryRLocker) {
	th.kind, th.site, th.lk, th.rlk = k, site, l, r
	s.ctl <- event{th}
	<-th.resume
}

func (s *S) enabled(th *thread) bool {
	switch th.kind {
	case reqLock:
		if th.lk.TryLock() {
			th.lk.Unlock()
			return true
		}
		return false
	case reqRLock:
		if th.rlk.TryRLock() {
			th.rlk.RUnlock()
			return true
		}
		return false
	}
	return true
}

func (s *S) next() int {
	if s.pos < len(s.schedule) {
		c := s.schedule[s.pos]
		s.pos++
		if c < 0 {
			c = -c
		}
		return c
	}
	return 0
}

// Run executes all threads to completion under the schedule.
func (s *S) Run() Result {
	activeMu.Lock()
	defer activeMu.Unlock()
	var res Result
	active = s
	defer func() { active = nil }()

	// start every thread: it parks immediately at "start"
	for _, th := range s.threads {
		th := th
		th.kind, th.site = reqStart, "start"
		go func() {
			th.gid = goid()
			<-th.resume
			defer func() {
				if p := recover(); p != nil {
					th.panicked = true
					st := string(debug.Stack())
					if len(st) > 2500 {
						st = st[:2500]
					}
					th.panicVal = fmt.Sprintf("%v\n%s", p, st)
				}
				th.done = true
				s.ctl <- event{th}
			}()
			th.fn(&T{s: s, th: th})
		}()
	}
	var last *thread
	for {
		var alive, en []*thread
		for _, th := range s.threads {
			if th.done {
				continue
			}
			alive = append(alive, th)
			if s.enabled(th) {
				en = append(en, th)
			} else if s.OnBlocked != nil {
				others := true
				for _, o := range s.threads {
					if o != th && !o.done && o.inLib {
						others = false
					}
				}
				s.OnBlocked(Blocked{Thread: th.id, Site: th.site, OthersOutsideLib: others})
			}
		}
		if len(alive) == 0 {
			break
		}
		if len(en) == 0 {
			res.Deadlock = true
			for _, th := range alive {
				res.DeadlockAt = append(res.DeadlockAt, fmt.Sprintf("%d@%s", th.id, th.site))
			}
			break
		}
		if res.Steps >= s.MaxSteps {
			res.Stuck = fmt.Sprintf("more than %d scheduling steps", s.MaxSteps)
			break
		}
		// options: the last thread first (so that choice 0 = "keep running"), then the others by id
		opts := en
		lastEnabled := false
		if last != nil {
			for i, th := range en {
				if th == last {
					lastEnabled = true
					opts = append([]*thread{th}, append(append([]*thread{}, en[:i]...), en[i+1:]...)...)
				}
			}
		}
		pick := opts[0]
		if len(opts) > 1 {
			res.Choices++
			res.OptCounts = append(res.OptCounts, len(opts))
			pick = opts[s.next()%len(opts)]
		}
		if lastEnabled && pick != last && last.kind != reqStart {
			res.Preemptions++
			if !strings.HasPrefix(last.site, "h:") {
				res.InsideSw++
			}
		}
		res.Steps++
		res.Trace = append(res.Trace, Step{pick.id, pick.site})
		if s.OnStep != nil {
			s.OnStep(pick.id, pick.site)
		}
		s.cur = pick
		last = pick
		pick.resume <- struct{}{}
		// wait until it parks again or finishes
		waited := time.Duration(0)
	wait:
		for {
			select {
			case <-s.ctl:
				break wait
			case <-time.After(inspectAfter):
				waited += inspectAfter
				// not a verdict from elapsed time: look at what the goroutine is doing
				state, stack := goroutineState(pick.gid)
				if isBlockingState(state) {
					// confirm on a second dump: transient states must not be mistaken for blocking
					time.Sleep(5 * time.Millisecond)
					if st2, _ := goroutineState(pick.gid); st2 != state {
						continue
					}
					select {
					case <-s.ctl:
						break wait
					default:
					}
				}
				if isBlockingState(state) || waited >= stuckAfter {
					s.cur = nil
					res.StuckThread, res.StuckState, res.StuckStack = pick.id, state, stack
					res.Stuck = fmt.Sprintf("thread %d did not reach a hook or finish after being resumed at %s; goroutine state %q:\n%s", pick.id, pick.site, state, stack)
					return s.finish(res)
				}
			}
		}
		s.cur = nil
	}
	return s.finish(res)
}

var (
	inspectAfter = 1500 * time.Millisecond
	stuckAfter   = 30 * time.Second
)

func goid() string {
	var buf [64]byte
	n := runtime.Stack(buf[:], false)
	f := strings.Fields(string(buf[:n]))
	if len(f) >= 2 {
		return f[1]
	}
	return ""
}

// goroutineState returns the wait state and stack of goroutine gid ("" if not found).
func goroutineState(gid string) (state, stack string) {
	all := stacks()
	for _, blk := range strings.Split(all, "\n\n") {
		if !strings.HasPrefix(blk, "goroutine "+gid+" [") {
			continue
		}
		hdr := blk[:strings.IndexByte(blk+"\n", '\n')]
		if i, j := strings.IndexByte(hdr, '['), strings.IndexByte(hdr, ']'); i >= 0 && j > i {
			state = hdr[i+1 : j]
			if k := strings.IndexByte(state, ','); k >= 0 {
				state = state[:k]
			}
		}
		return state, blk
	}
	return "", ""
}

func isBlockingState(st string) bool {
	switch st {
	case "sync.Mutex.Lock", "sync.RWMutex.Lock", "sync.RWMutex.RLock", "chan receive", "chan send", "select", "sync.Cond.Wait", "sync.WaitGroup.Wait":
		return true
	}
	return false
}

func stacks() string {
	buf := make([]byte, 1<<18)
	return string(buf[:runtime.Stack(buf, true)])
}

func (s *S) finish(res Result) Result {
	for _, th := range s.threads {
		if th.panicked {
			res.Panics = append(res.Panics, fmt.Sprintf("thread %d: %s", th.id, th.panicVal))
		}
	}
	return res
}

// Clock exposes the logical clock to code running on the scheduler goroutine (setup/postlude stamps).
func (s *S) Clock() int { s.clock++; return s.clock }

// EnumSchedules enumerates, by stateless re-execution, every schedule with at most
// `bound` non-zero choices (a non-zero choice = the scheduler does not simply keep
// running the current thread, i.e. a preemption or a non-default pick). run executes
// one schedule (choices beyond its end default to 0) and returns the option counts
// of the decisions that actually occurred; it returns stop=true to abort.
func EnumSchedules(bound int, run func(schedule []int) (optCounts []int, stop bool)) (runs int) {
	var rec func(prefix []int, nonzero int) bool
	rec = func(prefix []int, nonzero int) bool {
		oc, stop := run(prefix)
		runs++
		if stop {
			return false
		}
		if nonzero >= bound {
			return true
		}
		for i := len(prefix); i < len(oc); i++ {
			for alt := 1; alt < oc[i]; alt++ {
				next := make([]int, i+1)
				copy(next, prefix)
				next[i] = alt
				if !rec(next, nonzero+1) {
					return false
				}
			}
		}
		return true
	}
	rec(nil, 0)
	return runs
}
