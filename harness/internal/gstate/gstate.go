// Package gstate is the goroutine-state classifier: it parses
// runtime.Stack(all) to turn "it hangs" into evidence (which goroutine is in
// which wait state inside which function) instead of using elapsed time as a
// verdict.
package gstate

import (
	"runtime"
	"strings"
	"time"
)

// G is one goroutine of a dump.
type G struct {
	ID    string
	State string // "chan receive", "chan send", "select", "sync.Mutex.Lock", "semacquire", "running", "runnable", "sleep", ...
	Stack string
}

// Dump returns all goroutines.
func Dump() []G {
	buf := make([]byte, 1<<20)
	for {
		n := runtime.Stack(buf, true)
		if n < len(buf) {
			buf = buf[:n]
			break
		}
		buf = make([]byte, 2*len(buf))
	}
	var out []G
	for _, blk := range strings.Split(string(buf), "\n\n") {
		if !strings.HasPrefix(blk, "goroutine ") {
			continue
		}
		hdr := blk
		if i := strings.IndexByte(blk, '\n'); i >= 0 {
			hdr = blk[:i]
		}
		f := strings.Fields(hdr)
		g := G{Stack: blk}
		if len(f) >= 2 {
			g.ID = f[1]
		}
		if i, j := strings.IndexByte(hdr, '['), strings.LastIndexByte(hdr, ']'); i >= 0 && j > i {
			st := hdr[i+1 : j]
			if k := strings.IndexByte(st, ','); k >= 0 {
				st = st[:k]
			}
			g.State = st
		}
		out = append(out, g)
	}
	return out
}

// Blocking reports whether the wait state is one a goroutine cannot leave on its own.
func Blocking(state string) bool {
	switch state {
	case "chan receive", "chan send", "select", "sync.Mutex.Lock", "sync.RWMutex.Lock", "sync.RWMutex.RLock", "semacquire",
		"sync.Cond.Wait", "sync.WaitGroup.Wait", "chan receive (nil chan)", "chan send (nil chan)", "select (no cases)":
		return true
	}
	return false
}

// With returns the goroutines whose stack mentions frame.
func With(frame string) []G {
	var out []G
	for _, g := range Dump() {
		if strings.Contains(g.Stack, frame) {
			out = append(out, g)
		}
	}
	return out
}

// WaitBlocked polls until done() is true (returns "", true) or a goroutine whose
// stack mentions frame is seen in one of the accepted wait states on two dumps
// taken at least 2ms apart (same goroutine, same state) while done() is still
// false (returns that state, false). Transient states (semacquire, runnable,
// running, syscall…) are never accepted. After limit without either it
// returns timedOut = true.
func WaitBlocked(frame string, done func() bool, limit time.Duration, accepted ...string) (state string, finished bool, timedOut bool) {
	if len(accepted) == 0 {
		accepted = []string{"chan receive", "chan send", "select"}
	}
	ok := func(st string) bool {
		for _, a := range accepted {
			if a == st {
				return true
			}
		}
		return false
	}
	deadline := time.Now().Add(limit)
	for i := 0; ; i++ {
		if done() {
			return "", true, false
		}
		if i > 3 {
			for _, g := range With(frame) {
				if !ok(g.State) {
					continue
				}
				time.Sleep(2 * time.Millisecond)
				if done() {
					return "", true, false
				}
				for _, g2 := range With(frame) {
					if g2.ID == g.ID && g2.State == g.State && !done() {
						return g.State, false, false
					}
				}
			}
		}
		if time.Now().After(deadline) {
			return "", false, true
		}
		if i < 20 {
			runtime.Gosched()
		} else {
			time.Sleep(50 * time.Microsecond)
		}
	}
}

// GoID returns the id of the calling goroutine (as printed in stack dumps).
func GoID() string {
	var buf [64]byte
	n := runtime.Stack(buf[:], false)
	f := strings.Fields(string(buf[:n]))
	if len(f) >= 2 {
		return f[1]
	}
	return ""
}

// StateOf returns the wait state of goroutine id ("" if it no longer exists).
func StateOf(id string) string {
	for _, g := range Dump() {
		if g.ID == id {
			return g.State
		}
	}
	return ""
}

// WaitDoneOrBlocked waits until done() or until goroutine id is seen in wait state `state` on two
// dumps 2ms apart with done() still false (then it returns false). limit bounds the wait (timedOut).
func WaitDoneOrBlocked(id string, state string, done func() bool, limit time.Duration) (finished bool, timedOut bool) {
	deadline := time.Now().Add(limit)
	for i := 0; ; i++ {
		if done() {
			return true, false
		}
		if i > 5 && StateOf(id) == state {
			time.Sleep(2 * time.Millisecond)
			if done() {
				return true, false
			}
			if StateOf(id) == state && !done() {
				return false, false
			}
		}
		if time.Now().After(deadline) {
			return false, true
		}
		if i < 20 {
			runtime.Gosched()
		} else {
			time.Sleep(50 * time.Microsecond)
		}
	}
}

// WaitDoneOrBlockedIn is WaitDoneOrBlocked for a set of accepted wait states; it returns the state seen.
func WaitDoneOrBlockedIn(id string, states []string, done func() bool, limit time.Duration) (finished bool, state string, timedOut bool) {
	in := func(st string) bool {
		for _, a := range states {
			if a == st {
				return true
			}
		}
		return false
	}
	deadline := time.Now().Add(limit)
	for i := 0; ; i++ {
		if done() {
			return true, "", false
		}
		if i > 5 {
			if st := StateOf(id); in(st) {
				time.Sleep(2 * time.Millisecond)
				if done() {
					return true, "", false
				}
				if StateOf(id) == st && !done() {
					return false, st, false
				}
			}
		}
		if time.Now().After(deadline) {
			return false, "", true
		}
		if i < 20 {
			runtime.Gosched()
		} else {
			time.Sleep(50 * time.Microsecond)
		}
	}
}

// SyncBlocked are the wait states of a goroutine blocked in a sync primitive or on a channel.
var SyncBlocked = []string{"sync.Mutex.Lock", "sync.RWMutex.Lock", "sync.RWMutex.RLock", "chan receive", "chan send", "select", "sync.Cond.Wait"}
