// Package shape reconstructs binary trees from their traversals. It is the
// shape oracle of C01 ("pre-, in- and post-order are three traversals of one
// and the same binary tree") and C02 ("the tree revealed by pre- and in-order
// is height-balanced"). With duplicate values the reconstruction is ambiguous,
// so the questions are existential: is there *some* tree that explains the
// traversals (and is balanced)?
package shape

import "sort"

// Node of a reconstructed tree; values are ints (callers map their element type to ints).
type Node struct {
	V           int
	Left, Right *Node
	H           int // height in edges; leaf = 0
}

type key struct{ p, i, q, n int32 }

type solver struct {
	pre, in, post []int // values remapped to dense ids 0..m-1
	usePost       bool
	balanced      bool
	m             int
	first, last   []int32 // first/last index of each id in `in`
	contiguous    bool    // every value occupies one contiguous run of `in` (true for any sorted in-order)
	prePos        [][]int32 // prePos[v] = sorted positions of v in pre (only for values occurring more than once)
	failed        map[key]struct{} // existence mode: subproblems known to be infeasible
	memo          map[key][]int8   // balanced mode: feasible heights
	branched      bool
	orig          []int // id -> original value
}

func newSolver(pre, in, post []int, balanced bool) *solver {
	s := &solver{usePost: post != nil, balanced: balanced}
	// dense ids
	vals := append([]int(nil), in...)
	sort.Ints(vals)
	w := 0
	for i, v := range vals {
		if i == 0 || v != vals[w-1] {
			vals[w] = v
			w++
		}
	}
	vals = vals[:w]
	s.orig = vals
	s.m = w
	id := func(v int) int {
		j := sort.SearchInts(vals, v)
		if j < len(vals) && vals[j] == v {
			return j
		}
		return -1
	}
	conv := func(src []int) ([]int, bool) {
		out := make([]int, len(src))
		for i, v := range src {
			out[i] = id(v)
			if out[i] < 0 {
				return nil, false
			}
		}
		return out, true
	}
	var ok bool
	if s.in, ok = conv(in); !ok {
		return nil
	}
	if s.pre, ok = conv(pre); !ok {
		return nil // pre holds a value that in-order does not
	}
	if post != nil {
		if s.post, ok = conv(post); !ok {
			return nil
		}
	}
	s.first = make([]int32, w)
	s.last = make([]int32, w)
	for i := range s.first {
		s.first[i] = -1
	}
	s.contiguous = true
	for i, v := range s.in {
		if s.first[v] < 0 {
			s.first[v] = int32(i)
		} else if s.last[v] != int32(i-1) {
			s.contiguous = false
		}
		s.last[v] = int32(i)
	}
	s.prePos = make([][]int32, w)
	for x, u := range s.pre {
		if s.first[u] != s.last[u] {
			s.prePos[u] = append(s.prePos[u], int32(x))
		}
	}
	return s
}

func (s *solver) occurs(lo, hi, v int) bool {
	if s.contiguous {
		return int(s.first[v]) < hi && int(s.last[v]) >= lo
	}
	for _, x := range s.in[lo:hi] {
		if x == v {
			return true
		}
	}
	return false
}

// candidates calls f for every root position j in in[i:i+n] that passes the
// cheap necessary conditions; f returning true stops the iteration.
func (s *solver) candidates(p, i, q, n int, f func(j, ls, rs int) bool) {
	root := s.pre[p]
	if s.usePost && s.post[q+n-1] != root {
		return
	}
	lo, hi := i, i+n
	if s.contiguous {
		if int(s.first[root]) > lo {
			lo = int(s.first[root])
		}
		if int(s.last[root])+1 < hi {
			hi = int(s.last[root]) + 1
		}
	}
	for j := lo; j < hi; j++ {
		if s.in[j] != root {
			continue
		}
		ls := j - i
		rs := n - 1 - ls
		if s.usePost {
			if ls > 0 && s.post[q+ls-1] != s.pre[p+1] {
				continue
			}
			if rs > 0 && s.post[q+n-2] != s.pre[p+1+ls] {
				continue
			}
		}
		if ls > 0 && !s.occurs(i, j, s.pre[p+1]) {
			continue
		}
		if rs > 0 && !s.occurs(j+1, i+n, s.pre[p+1+ls]) {
			continue
		}
		if s.contiguous {
			if ps := s.prePos[root]; ps != nil {
				a := int(s.first[root])
				if a < i {
					a = i
				}
				// occurrences of root in pre[p+1 : p+1+ls]
				lo := sort.Search(len(ps), func(k int) bool { return int(ps[k]) >= p+1 })
				hi := sort.Search(len(ps), func(k int) bool { return int(ps[k]) >= p+1+ls })
				if hi-lo != j-a {
					continue
				}
			}
		}
		if f(j, ls, rs) {
			return
		}
	}
}

// exists: is there a tree explaining the segments? Early exit; failures memoised.
func (s *solver) exists(p, i, q, n int) bool {
	if n == 0 {
		return true
	}
	if n == 1 {
		return s.pre[p] == s.in[i] && (!s.usePost || s.post[q] == s.in[i])
	}
	k := key{int32(p), int32(i), int32(q), int32(n)}
	if s.failed != nil {
		if _, bad := s.failed[k]; bad {
			return false
		}
	}
	found := false
	tried := 0
	s.candidates(p, i, q, n, func(j, ls, rs int) bool {
		tried++
		if s.exists(p+1, i, q, ls) && s.exists(p+1+ls, j+1, q+ls, rs) {
			found = true
			return true
		}
		return false
	})
	if !found && tried > 0 {
		if s.failed == nil {
			s.failed = map[key]struct{}{}
		}
		s.failed[k] = struct{}{}
	}
	return found
}

// feasible returns the distinct heights (edges; empty = -1) of the trees
// explaining the segments; with s.balanced only AVL-balanced trees count.
func (s *solver) feasible(p, i, q, n int) []int8 {
	if n == 0 {
		return []int8{-1}
	}
	k := key{int32(p), int32(i), int32(q), int32(n)}
	if s.branched {
		if r, ok := s.memo[k]; ok {
			return r
		}
	}
	var res []int8
	viable := 0
	s.candidates(p, i, q, n, func(j, ls, rs int) bool {
		viable++
		if viable > 1 && !s.branched {
			s.branched = true
			s.memo = map[key][]int8{}
		}
		lh := s.feasible(p+1, i, q, ls)
		if len(lh) == 0 {
			return false
		}
		rh := s.feasible(p+1+ls, j+1, q+ls, rs)
		for _, a := range lh {
			for _, b := range rh {
				d := a - b
				if s.balanced && (d > 1 || d < -1) {
					continue
				}
				h := a
				if b > h {
					h = b
				}
				h++
				dup := false
				for _, x := range res {
					if x == h {
						dup = true
					}
				}
				if !dup {
					res = append(res, h)
				}
			}
		}
		return false
	})
	if s.branched {
		s.memo[k] = res
	}
	return res
}

// build returns one concrete tree of the wanted height (feasible mode).
func (s *solver) build(p, i, q, n int, want int8) *Node {
	if n == 0 {
		return nil
	}
	var out *Node
	s.candidates(p, i, q, n, func(j, ls, rs int) bool {
		lh := s.feasible(p+1, i, q, ls)
		rh := s.feasible(p+1+ls, j+1, q+ls, rs)
		for _, a := range lh {
			for _, b := range rh {
				d := a - b
				if s.balanced && (d > 1 || d < -1) {
					continue
				}
				h := a
				if b > h {
					h = b
				}
				if h+1 != want {
					continue
				}
				out = &Node{V: s.orig[s.pre[p]], H: int(want), Left: s.build(p+1, i, q, ls, a), Right: s.build(p+1+ls, j+1, q+ls, rs, b)}
				return true
			}
		}
		return false
	})
	return out
}

// buildAny returns one concrete tree (existence mode); nil if none.
func (s *solver) buildAny(p, i, q, n int) (*Node, bool) {
	if n == 0 {
		return nil, true
	}
	var out *Node
	ok := false
	s.candidates(p, i, q, n, func(j, ls, rs int) bool {
		if !s.exists(p+1, i, q, ls) || !s.exists(p+1+ls, j+1, q+ls, rs) {
			return false
		}
		l, _ := s.buildAny(p+1, i, q, ls)
		r, _ := s.buildAny(p+1+ls, j+1, q+ls, rs)
		h := Height(l)
		if Height(r) > h {
			h = Height(r)
		}
		out = &Node{V: s.orig[s.pre[p]], Left: l, Right: r, H: h + 1}
		ok = true
		return true
	})
	return out, ok
}

// Exists reports whether some binary tree has the given traversals (post may be nil).
func Exists(pre, in, post []int) bool {
	n := len(in)
	if len(pre) != n || (post != nil && len(post) != n) {
		return false
	}
	if n == 0 {
		return true
	}
	s := newSolver(pre, in, post, false)
	if s == nil {
		return false
	}
	return s.exists(0, 0, 0, n)
}

// Any returns one tree that has the given traversals (post may be nil), or ok=false.
func Any(pre, in, post []int) (tree *Node, ok bool) {
	n := len(in)
	if len(pre) != n || (post != nil && len(post) != n) {
		return nil, false
	}
	if n == 0 {
		return nil, true
	}
	s := newSolver(pre, in, post, false)
	if s == nil {
		return nil, false
	}
	return s.buildAny(0, 0, 0, n)
}

// Explain reports whether some binary tree has the given traversals
// (post may be nil: then only pre and in are used). If balanced is set the tree
// must additionally be AVL-balanced at every node. It returns one such tree of
// minimal height.
func Explain(pre, in, post []int, balanced bool) (ok bool, tree *Node) {
	n := len(in)
	if len(pre) != n || (post != nil && len(post) != n) {
		return false, nil
	}
	if n == 0 {
		return true, nil
	}
	s := newSolver(pre, in, post, balanced)
	if s == nil {
		return false, nil
	}
	hs := s.feasible(0, 0, 0, n)
	if len(hs) == 0 {
		return false, nil
	}
	best := hs[0]
	for _, h := range hs {
		if h < best {
			best = h
		}
	}
	return true, s.build(0, 0, 0, n, best)
}

// Unbalanced returns a node of t whose subtree heights differ by more than one, or nil.
func Unbalanced(t *Node) *Node {
	if t == nil {
		return nil
	}
	if u := Unbalanced(t.Left); u != nil {
		return u
	}
	if u := Unbalanced(t.Right); u != nil {
		return u
	}
	d := Height(t.Left) - Height(t.Right)
	if d > 1 || d < -1 {
		return t
	}
	return nil
}

// Height in edges; empty = -1.
func Height(t *Node) int {
	if t == nil {
		return -1
	}
	return t.H
}

// Render draws the tree as nested parentheses: (left V right).
func Render(t *Node) string {
	if t == nil {
		return "."
	}
	if t.Left == nil && t.Right == nil {
		return itoa(t.V)
	}
	return "(" + Render(t.Left) + " " + itoa(t.V) + " " + Render(t.Right) + ")"
}

func itoa(v int) string {
	if v == 0 {
		return "0"
	}
	neg := v < 0
	if neg {
		v = -v
	}
	var b [20]byte
	i := len(b)
	for v > 0 {
		i--
		b[i] = byte('0' + v%10)
		v /= 10
	}
	if neg {
		i--
		b[i] = '-'
	}
	return string(b[i:])
}
