package shape

import (
	"math/rand"
	"sort"
	"testing"
)

type bn struct {
	v    int
	l, r *bn
}

func ins(n *bn, v int, rng *rand.Rand) *bn {
	if n == nil {
		return &bn{v: v}
	}
	if v < n.v || (v == n.v && rng.Intn(2) == 0) {
		n.l = ins(n.l, v, rng)
	} else {
		n.r = ins(n.r, v, rng)
	}
	return n
}
func trav(n *bn, pre, in, post *[]int) {
	if n == nil {
		return
	}
	*pre = append(*pre, n.v)
	trav(n.l, pre, in, post)
	*in = append(*in, n.v)
	trav(n.r, pre, in, post)
	*post = append(*post, n.v)
}

func benchU(b *testing.B, n, u int) {
	rng := rand.New(rand.NewSource(1))
	var root *bn
	for i := 0; i < n; i++ {
		root = ins(root, rng.Intn(u+1), rng)
	}
	var pre, in, post []int
	trav(root, &pre, &in, &post)
	if !sort.IntsAreSorted(in) {
		b.Fatal("not sorted")
	}
	b.ResetTimer()
	for i := 0; i < b.N; i++ {
		ok, _ := Explain(pre, in, post, false)
		if !ok {
			b.Fatal("no")
		}
	}
}
func BenchmarkN100U3(b *testing.B)  { benchU(b, 100, 3) }
func BenchmarkN100U12(b *testing.B) { benchU(b, 100, 12) }
func BenchmarkN100U40(b *testing.B) { benchU(b, 100, 40) }
func BenchmarkN30U3(b *testing.B)   { benchU(b, 30, 3) }

func benchExists(b *testing.B, n, u int) {
	rng := rand.New(rand.NewSource(1))
	var root *bn
	for i := 0; i < n; i++ {
		root = ins(root, rng.Intn(u+1), rng)
	}
	var pre, in, post []int
	trav(root, &pre, &in, &post)
	b.ResetTimer()
	for i := 0; i < b.N; i++ {
		if !Exists(pre, in, post) {
			b.Fatal("no")
		}
	}
}
func BenchmarkExistsN100U3(b *testing.B)  { benchExists(b, 100, 3) }
func BenchmarkExistsN100U40(b *testing.B) { benchExists(b, 100, 40) }
func BenchmarkExistsN100U0(b *testing.B)  { benchExists(b, 100, 0) }

// brute force: enumerate all binary trees over a multiset arrangement
func allTrees(in []int) []*bn {
	if len(in) == 0 {
		return []*bn{nil}
	}
	var out []*bn
	for j := range in {
		for _, l := range allTrees(in[:j]) {
			for _, r := range allTrees(in[j+1:]) {
				out = append(out, &bn{v: in[j], l: l, r: r})
			}
		}
	}
	return out
}
func height(n *bn) int {
	if n == nil {
		return -1
	}
	a, c := height(n.l), height(n.r)
	if c > a {
		a = c
	}
	return a + 1
}
func balancedBN(n *bn) bool {
	if n == nil {
		return true
	}
	d := height(n.l) - height(n.r)
	return d >= -1 && d <= 1 && balancedBN(n.l) && balancedBN(n.r)
}
func eqs(a, b []int) bool {
	if len(a) != len(b) {
		return false
	}
	for i := range a {
		if a[i] != b[i] {
			return false
		}
	}
	return true
}

func TestSolverAgainstBruteForce(t *testing.T) {
	rng := rand.New(rand.NewSource(42))
	for iter := 0; iter < 3000; iter++ {
		n := rng.Intn(7)
		u := rng.Intn(3) + 1
		in := make([]int, n)
		for i := range in {
			in[i] = rng.Intn(u)
		}
		sort.Ints(in)
		trees := allTrees(in)
		// pick traversals: either of a real tree, or perturbed
		tr := trees[rng.Intn(len(trees))]
		var pre, in2, post []int
		trav(tr, &pre, &in2, &post)
		if rng.Intn(2) == 0 && n >= 2 {
			a, b := rng.Intn(n), rng.Intn(n)
			if rng.Intn(2) == 0 {
				pre[a], pre[b] = pre[b], pre[a]
			} else {
				post[a], post[b] = post[b], post[a]
			}
		}
		wantAny, wantBal, wantPI, wantPIBal := false, false, false, false
		for _, c := range trees {
			var p, i2, q []int
			trav(c, &p, &i2, &q)
			if eqs(p, pre) {
				wantPI = true
				if balancedBN(c) {
					wantPIBal = true
				}
				if eqs(q, post) {
					wantAny = true
					if balancedBN(c) {
						wantBal = true
					}
				}
			}
		}
		if got := Exists(pre, in, post); got != wantAny {
			t.Fatalf("Exists(%v,%v,%v)=%v want %v", pre, in, post, got, wantAny)
		}
		if _, ok := Any(pre, in, post); ok != wantAny {
			t.Fatalf("Any(%v,%v,%v)=%v want %v", pre, in, post, ok, wantAny)
		}
		if got, _ := Explain(pre, in, post, false); got != wantAny {
			t.Fatalf("Explain(%v,%v,%v)=%v want %v", pre, in, post, got, wantAny)
		}
		if got, tr := Explain(pre, in, post, true); got != wantBal || (got && Unbalanced(tr) != nil) {
			t.Fatalf("Explain balanced(%v,%v,%v)=%v want %v", pre, in, post, got, wantBal)
		}
		if got, _ := Explain(pre, in, nil, false); got != wantPI {
			t.Fatalf("Explain pre+in(%v,%v)=%v want %v", pre, in, got, wantPI)
		}
		if got, _ := Explain(pre, in, nil, true); got != wantPIBal {
			t.Fatalf("Explain pre+in balanced(%v,%v)=%v want %v", pre, in, got, wantPIBal)
		}
	}
}
