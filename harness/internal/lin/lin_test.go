package lin

import (
	"math/rand"
	"testing"

	"github.com/anishathalye/porcupine"
)

// register model: state = value (0 = absent); ops: 0 load -> (v), 1 store(v), 2 loadOrStore(v)->(actual,loaded), 3 loadAndDelete -> (v,loaded)
type rop struct {
	kind, arg, out int
	flag           bool
}

func step(s int, o rop) (int, bool) {
	switch o.kind {
	case 0:
		return s, o.out == s
	case 1:
		return o.arg, true
	case 2:
		if s != 0 {
			return s, o.flag && o.out == s
		}
		return o.arg, !o.flag && o.out == o.arg
	default:
		if s != 0 {
			return 0, o.flag && o.out == s
		}
		return 0, !o.flag && o.out == 0
	}
}

func TestAgainstPorcupine(t *testing.T) {
	rng := rand.New(rand.NewSource(7))
	model := porcupine.Model{
		Init: func() interface{} { return 0 },
		Step: func(state, input, output interface{}) (bool, interface{}) {
			o := input.(rop)
			next, ok := step(state.(int), o)
			return ok, next
		},
		Equal: func(a, b interface{}) bool { return a == b },
	}
	agree, lin := 0, 0
	for iter := 0; iter < 4000; iter++ {
		// simulate a real concurrent execution on a sequential register, then perturb some outputs
		n := 2 + rng.Intn(9)
		type pend struct {
			o        rop
			inv, rsp int
		}
		var hist []pend
		// random intervals
		clock := 0
		state := 0
		type live struct {
			idx   int
			done  bool
			taken bool
		}
		var open []int
		for len(hist) < n || len(open) > 0 {
			if len(hist) < n && (len(open) == 0 || rng.Intn(2) == 0) {
				clock++
				o := rop{kind: rng.Intn(4), arg: 1 + rng.Intn(3)}
				hist = append(hist, pend{o: o, inv: clock, rsp: -1})
				open = append(open, len(hist)-1)
				continue
			}
			// take effect + respond for a random open op
			j := rng.Intn(len(open))
			i := open[j]
			open = append(open[:j], open[j+1:]...)
			o := &hist[i].o
			switch o.kind {
			case 0:
				o.out = state
			case 1:
				state = o.arg
			case 2:
				if state != 0 {
					o.out, o.flag = state, true
				} else {
					state = o.arg
					o.out, o.flag = o.arg, false
				}
			case 3:
				if state != 0 {
					o.out, o.flag = state, true
					state = 0
				} else {
					o.out, o.flag = 0, false
				}
			}
			clock++
			hist[i].rsp = clock
		}
		if rng.Intn(2) == 0 {
			k := rng.Intn(len(hist))
			hist[k].o.out = rng.Intn(4)
			if rng.Intn(3) == 0 {
				hist[k].o.flag = !hist[k].o.flag
			}
		}
		var ops []Op[int]
		var pops []porcupine.Operation
		for i, h := range hist {
			h := h
			ops = append(ops, Op[int]{Inv: h.inv, Resp: h.rsp, Apply: func(s int) (int, bool) { return step(s, h.o) }})
			pops = append(pops, porcupine.Operation{ClientId: i, Input: h.o, Call: int64(h.inv), Output: nil, Return: int64(h.rsp)})
		}
		mine := Check(0, ops)
		theirs := porcupine.CheckOperations(model, pops)
		if mine != theirs {
			t.Fatalf("iter %d: lin.Check=%v porcupine=%v history=%+v", iter, mine, theirs, hist)
		}
		agree++
		if mine {
			lin++
		}
	}
	t.Logf("agreed on %d histories (%d linearizable)", agree, lin)
	if lin == 0 || lin == agree {
		t.Fatalf("self-test is vacuous: %d of %d linearizable", lin, agree)
	}
}
