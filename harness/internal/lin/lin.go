// Package lin holds the linearizability checker shared by C04, C05 and C18
// (Wing–Gong search with memoisation on (linearised set, state)), cross-checked
// against porcupine in its unit test.
package lin

// Op is one completed (or pending) operation of a history over a model whose
// state is S. Apply reports whether the observed result is what the model
// returns in state s, and the state after the operation.
type Op[S comparable] struct {
	Inv, Resp int  // logical invocation / response stamps (Inv < Resp)
	Pending   bool // never returned: may take effect at any point after Inv, or never
	Apply     func(s S) (next S, ok bool)
	Name      string // for messages
}

type memoKey[S comparable] struct {
	mask uint64
	s    S
}

// Check reports whether the history is linearizable from the initial state.
// At most 64 operations.
func Check[S comparable](init S, ops []Op[S]) bool {
	n := len(ops)
	if n == 0 {
		return true
	}
	if n > 64 {
		panic("lin: more than 64 operations in one partition")
	}
	var required uint64
	for i, o := range ops {
		if !o.Pending {
			required |= 1 << uint(i)
		}
	}
	seen := map[memoKey[S]]struct{}{}
	var dfs func(mask uint64, s S) bool
	dfs = func(mask uint64, s S) bool {
		if mask&required == required {
			return true
		}
		k := memoKey[S]{mask, s}
		if _, ok := seen[k]; ok {
			return false
		}
		seen[k] = struct{}{}
		// an op may be linearised next iff no other un-linearised, non-pending op responded before it was invoked
		minResp := int(^uint(0) >> 1)
		for i, o := range ops {
			if mask&(1<<uint(i)) == 0 && !o.Pending && o.Resp < minResp {
				minResp = o.Resp
			}
		}
		for i, o := range ops {
			if mask&(1<<uint(i)) != 0 || o.Inv > minResp {
				continue
			}
			if next, ok := o.Apply(s); ok {
				if dfs(mask|1<<uint(i), next) {
					return true
				}
			}
		}
		return false
	}
	return dfs(0, init)
}
