// Package lin holds the history recorder and the linearizability checker
// (Wing-Gong search with memoisation), cross-checked against porcupine.
package lin

import _ "github.com/anishathalye/porcupine"
