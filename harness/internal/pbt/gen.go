package pbt

import "pgregory.net/rapid"

// OpsOf draws an operation list whose length is spread over the given size
// classes (rapid's own SliceOfN(0,max) averages five elements) while keeping
// rapid's group-deletion shrinking: a size class k is drawn first (shrinks
// towards the first class), then between k and 2k+6 elements.
func OpsOf[T any](t *rapid.T, elem *rapid.Generator[T], classes []int, label string) []T {
	k := rapid.SampledFrom(classes).Draw(t, label+"-sizeclass")
	return rapid.SliceOfN(elem, k, 2*k+6).Draw(t, label)
}
