// Package pbt is the generic case runner shared by every property package.
//
// A property is split into a serialisable Case, a generator Gen (all
// randomness drawn through rapid, so seeding and shrinking work) and/or an
// exhaustive enumerator Enum, and a deterministic Run(Case) Outcome that
// executes the case against go-typ/typ and the oracle. pbt counts what was
// generated, which cases were non-trivial by the unit's stated rule (distinct
// cases, by 64-bit FNV hash of the canonical JSON), keeps samples, records the
// smallest failing case seen (rapid re-runs the property for every shrink
// candidate) and writes all of that to side-channel files that the driver
// turns into evidence, replay files and exit codes.
package pbt

import (
	"encoding/binary"
	"encoding/json"
	"flag"
	"fmt"
	"hash/fnv"
	"os"
	"path/filepath"
	"runtime"
	"runtime/debug"
	"sort"
	"strconv"
	"strings"
	"sync"
	"sync/atomic"
	"syscall"
	"testing"
	"time"

	"pgregory.net/rapid"
)

// Outcome is what Run reports for one case.
type Outcome struct {
	Violation  string   // non-empty: the property is violated by this case
	Known      string   // non-empty: key of a known finding this case reproduced (not a violation if listed)
	KnownWhat  string   // human description for the KNOWN-FINDING line
	Labels     []string // classes this case falls in (for the class histogram)
	NonTrivial bool     // case satisfies the unit's non-triviality rule
	Skipped    bool     // case belongs to a class excluded by construction (counted)
	Evals      int      // number of elementary evaluations in this case (default 1)
	NTCount    int      // for block cases of enumerators: distinct non-trivial points inside (distinct by construction)
	Observed   any      // extra data for the replay file (history, trace)
	// Inconclusive: the case could not be decided (e.g. a thread blocked outside the scheduler's hooks);
	// never a violation; the driver turns it into exit 2 when nothing else was found.
	Inconclusive string
}

// Fail is a convenience constructor.
func Fail(format string, a ...any) Outcome { return Outcome{Violation: fmt.Sprintf(format, a...)} }

// Spec describes one unit (one test function) of a property check.
type Spec[C any] struct {
	Property   string // "C13"
	Name       string // unit name, unique: "C13.chunk.enum"
	Rule       string // how cases are generated and what makes one non-trivial
	Gen        func(t *rapid.T) C
	Enum       func(shard, shards int, tier string, yield func(C) bool)
	Run        func(C) Outcome
	Quick      int           // rapid cases (quick tier, per shard)
	Thorough   int           // rapid cases (thorough tier, per shard)
	Exhaustive bool          // Enum covers its whole stated space
	CaseCPU    time.Duration // divergence threshold: CPU time one case may burn (default 20s)
	Crashy     bool          // write the current case to disk before running it
	Retries    int           // replay attempts (nondeterministic units), default 1
	Assumes    []string
	NoRecover  bool // Run handles its own panics / must not be wrapped
	// Replicas > 1: one case in ReplicaEvery (chosen by a hash of the case; default 8) is, after its normal run,
	// run again as Replicas independent copies in parallel goroutines (each copy builds its own objects): state
	// that the library shares between independent objects (package-level pools, caches, scratch buffers) then
	// shows as a failing copy. Run must be reentrant (no package-level state of the harness itself).
	Replicas     int
	ReplicaEvery int
}

type erased interface {
	unitName() string
	runJSON(raw json.RawMessage) (Outcome, error)
	retries() int
	property() string
}

func (s *Spec[C]) unitName() string { return s.Name }
func (s *Spec[C]) property() string { return s.Property }
func (s *Spec[C]) retries() int {
	if s.Retries <= 0 {
		return 1
	}
	return s.Retries
}
func (s *Spec[C]) runJSON(raw json.RawMessage) (Outcome, error) {
	var c C
	if err := json.Unmarshal(raw, &c); err != nil {
		return Outcome{}, err
	}
	return guardedR(s, c, true), nil
}

var registry = map[string]erased{}

// Register makes a unit replayable by name.
func Register[C any](s *Spec[C]) *Spec[C] {
	if _, dup := registry[s.Name]; dup {
		panic("pbt: duplicate unit " + s.Name)
	}
	registry[s.Name] = s
	return s
}

// Env is the run configuration handed down by the driver.
type Env struct {
	Tier   string
	Seed   uint64
	Shard  int
	Shards int
	Work   string
	Scale  float64
}

func GetEnv() Env {
	e := Env{Tier: os.Getenv("VERIF_TIER"), Work: os.Getenv("VERIF_WORK"), Shards: 1, Scale: 1}
	if e.Tier == "" {
		e.Tier = "quick"
	}
	if v, err := strconv.ParseInt(os.Getenv("VERIF_SEED"), 10, 64); err == nil {
		e.Seed = uint64(v)
	}
	if v, err := strconv.Atoi(os.Getenv("VERIF_SHARD")); err == nil {
		e.Shard = v
	}
	if v, err := strconv.Atoi(os.Getenv("VERIF_SHARDS")); err == nil && v > 0 {
		e.Shards = v
	}
	if v, err := strconv.ParseFloat(os.Getenv("VERIF_SCALE"), 64); err == nil && v > 0 {
		e.Scale = v
	}
	if e.Work == "" {
		e.Work = filepath.Join(os.TempDir(), "verif-work")
	}
	_ = os.MkdirAll(e.Work, 0o755)
	return e
}

const maxHashes = 1 << 21

// Partial is the per-process evidence fragment read by the driver.
type Partial struct {
	Property          string              `json:"property"`
	Unit              string              `json:"unit"`
	Shard             int                 `json:"shard"`
	Tier              string              `json:"tier"`
	Seed              uint64              `json:"seed"`
	Rule              string              `json:"rule"`
	Evaluations       int64               `json:"evaluations"`
	Cases             int64               `json:"cases"`
	NonTrivial        int64               `json:"nontrivial_cases"`
	Distinct          int64               `json:"distinct_nontrivial_local"`
	ByConstr          int64               `json:"distinct_by_construction"`
	Saturated         bool                `json:"hashset_saturated"`
	Skipped           int64               `json:"skipped_excluded"`
	Labels            map[string]int      `json:"labels"`
	Samples           []any               `json:"samples"`
	Exhaustive        bool                `json:"exhaustive"`
	Requested         int                 `json:"requested"`
	Completed         bool                `json:"completed"`
	Violations        int                 `json:"violations"`
	Known             map[string]KnownHit `json:"known"`
	Assumes           []string            `json:"assumes"`
	WallS             float64             `json:"wall_s"`
	HashFile          string              `json:"hash_file"`
	Inconclusive      int64               `json:"inconclusive_cases"`
	InconclusiveFirst string              `json:"inconclusive_first"`
	Extra             map[string]any      `json:"extra,omitempty"`
}

type KnownHit struct {
	Count int    `json:"count"`
	What  string `json:"what"`
	Case  any    `json:"case"`
}

// FailFile is the replay file format.
type FailFile struct {
	Property string          `json:"property"`
	Unit     string          `json:"unit"`
	Case     json.RawMessage `json:"case"`
	Observed any             `json:"observed"`
	Message  string          `json:"message"`
	Seed     uint64          `json:"seed"`
	Tier     string          `json:"tier"`
	Shard    int             `json:"shard"`
	Kind     string          `json:"kind"` // "violation" | "divergence" | "current-case"
}

type recorder[C any] struct {
	spec   *Spec[C]
	env    Env
	start  time.Time
	mu     sync.Mutex
	p      Partial
	hashes map[uint64]struct{}
	fail   *FailFile
	failSz int

	caseSeq   atomic.Int64
	caseCPU0  atomic.Int64 // process CPU ns at case start
	caseWall0 atomic.Int64
	curJSON   atomic.Pointer[[]byte]
	curFile   *os.File
	stop      chan struct{}
	suffix    string
}

func (r *recorder[C]) base() string {
	return filepath.Join(r.env.Work, fmt.Sprintf("%s.s%d%s", r.spec.Name, r.env.Shard, r.suffix))
}

func cpuNow() int64 {
	var ru syscall.Rusage
	if err := syscall.Getrusage(syscall.RUSAGE_SELF, &ru); err != nil {
		return 0
	}
	return (int64(ru.Utime.Sec)+int64(ru.Stime.Sec))*1e9 + (int64(ru.Utime.Usec)+int64(ru.Stime.Usec))*1e3
}

// guardedR: the normal run, then (for the chosen cases, or always when replaying) the parallel replicas.
func guardedR[C any](s *Spec[C], c C, force bool) Outcome {
	out := guarded(s, c)
	if s.Replicas <= 1 || out.Violation != "" || out.Inconclusive != "" || out.Skipped {
		return out
	}
	if !force {
		every := s.ReplicaEvery
		if every <= 0 {
			every = 8
		}
		js, _ := json.Marshal(c)
		h := fnv.New64a()
		h.Write(js)
		if h.Sum64()%uint64(every) != 0 {
			return out
		}
	}
	outs := make([]Outcome, s.Replicas)
	var wg sync.WaitGroup
	var gate atomic.Int32
	for i := range outs {
		i := i
		wg.Add(1)
		go func() {
			defer wg.Done()
			gate.Add(1)
			for int(gate.Load()) < s.Replicas {
				runtime.Gosched()
			}
			outs[i] = guarded(s, c)
		}()
	}
	wg.Wait()
	for i, o := range outs {
		if o.Violation != "" {
			return Outcome{Violation: fmt.Sprintf("with %d independent copies of this case running in parallel goroutines (each on objects of its own; a single run of the case passes), copy %d fails: %s", s.Replicas, i, o.Violation)}
		}
	}
	out.Labels = append(out.Labels, "also-run-as-parallel-independent-copies")
	return out
}

func guarded[C any](s *Spec[C], c C) (out Outcome) {
	if s.NoRecover {
		return s.Run(c)
	}
	defer func() {
		if p := recover(); p != nil {
			st := string(debug.Stack())
			if len(st) > 3000 {
				st = st[:3000]
			}
			out = Outcome{Violation: fmt.Sprintf("unexpected panic: %v\n%s", p, st)}
		}
	}()
	return s.Run(c)
}

func (r *recorder[C]) one(c C) Outcome {
	js, _ := json.Marshal(c)
	if r.spec.Crashy {
		r.writeCurrent(js)
	}
	r.curJSON.Store(&js)
	r.caseCPU0.Store(cpuNow())
	r.caseWall0.Store(time.Now().UnixNano())
	r.caseSeq.Add(1)
	out := guardedR(r.spec, c, false)
	r.caseSeq.Add(1)

	r.mu.Lock()
	defer r.mu.Unlock()
	ev := out.Evals
	if ev <= 0 {
		ev = 1
	}
	r.p.Evaluations += int64(ev)
	r.p.Cases++
	for _, l := range out.Labels {
		r.p.Labels[l]++
	}
	if out.Skipped {
		r.p.Skipped++
	}
	if out.Inconclusive != "" {
		r.p.Inconclusive++
		if r.p.InconclusiveFirst == "" {
			r.p.InconclusiveFirst = out.Inconclusive + " | case=" + string(js)
		}
	}
	if out.NTCount > 0 {
		r.p.ByConstr += int64(out.NTCount)
	}
	if out.NonTrivial {
		r.p.NonTrivial++
		h := fnv.New64a()
		h.Write(js)
		k := h.Sum64()
		if _, seen := r.hashes[k]; !seen {
			if len(r.hashes) < maxHashes {
				r.hashes[k] = struct{}{}
				if len(r.p.Samples) < 3 {
					r.p.Samples = append(r.p.Samples, json.RawMessage(js))
				}
			} else {
				r.p.Saturated = true
			}
		}
	} else if r.p.Cases == 1 && len(r.p.Samples) == 0 && out.NTCount > 0 {
		r.p.Samples = append(r.p.Samples, json.RawMessage(js))
	}
	if out.Known != "" && out.Violation == "" {
		kh := r.p.Known[out.Known]
		kh.Count++
		if kh.Case == nil {
			kh.Case = json.RawMessage(js)
			kh.What = out.KnownWhat
		}
		r.p.Known[out.Known] = kh
	}
	if out.Violation != "" {
		r.p.Violations++
		if r.fail == nil || len(js) < r.failSz {
			r.fail = &FailFile{Property: r.spec.Property, Unit: r.spec.Name, Case: js, Observed: out.Observed,
				Message: out.Violation, Seed: r.env.Seed, Tier: r.env.Tier, Shard: r.env.Shard, Kind: "violation"}
			r.failSz = len(js)
			r.flushFail()
		}
	}
	return out
}

func (r *recorder[C]) writeCurrent(js []byte) {
	if r.curFile == nil {
		f, err := os.OpenFile(r.base()+".current.json", os.O_CREATE|os.O_RDWR|os.O_TRUNC, 0o644)
		if err != nil {
			return
		}
		r.curFile = f
	}
	ff := FailFile{Property: r.spec.Property, Unit: r.spec.Name, Case: js, Seed: r.env.Seed, Tier: r.env.Tier,
		Shard: r.env.Shard, Kind: "current-case", Message: "process died while executing this case"}
	b, _ := json.Marshal(ff)
	// pad so that a shorter record fully overwrites a longer one
	_ = r.curFile.Truncate(0)
	_, _ = r.curFile.WriteAt(b, 0)
}

func (r *recorder[C]) flushFail() {
	if r.fail == nil {
		return
	}
	b, _ := json.MarshalIndent(r.fail, "", " ")
	tmp := r.base() + ".fail.json.tmp"
	if os.WriteFile(tmp, b, 0o644) == nil {
		_ = os.Rename(tmp, r.base()+".fail.json")
	}
}

func (r *recorder[C]) flushPartial(completed bool) {
	r.mu.Lock()
	defer r.mu.Unlock()
	r.p.Completed = completed
	r.p.WallS = time.Since(r.start).Seconds()
	r.p.Distinct = int64(len(r.hashes))
	// hashes as binary
	hf := r.base() + ".hashes"
	buf := make([]byte, 0, 8*len(r.hashes))
	keys := make([]uint64, 0, len(r.hashes))
	for k := range r.hashes {
		keys = append(keys, k)
	}
	sort.Slice(keys, func(i, j int) bool { return keys[i] < keys[j] })
	for _, k := range keys {
		buf = binary.LittleEndian.AppendUint64(buf, k)
	}
	if os.WriteFile(hf, buf, 0o644) == nil {
		r.p.HashFile = hf
	}
	b, _ := json.MarshalIndent(&r.p, "", " ")
	tmp := r.base() + ".partial.json.tmp"
	if os.WriteFile(tmp, b, 0o644) == nil {
		_ = os.Rename(tmp, r.base()+".partial.json")
	}
}

// watchdog turns divergence (a bounded case burning CPU or memory without
// end) into a recorded violation, and a silently blocked case into an
// "inconclusive" marker; it never uses elapsed wall time as a violation signal.
func (r *recorder[C]) watchdog() {
	cpuLimit := r.spec.CaseCPU
	if cpuLimit <= 0 {
		cpuLimit = 20 * time.Second
	}
	memLimit := uint64(3 << 30)
	if v, err := strconv.ParseUint(os.Getenv("VERIF_CASE_MEM"), 10, 64); err == nil && v > 0 {
		memLimit = v
	}
	wallLimit := 120 * time.Second
	tick := time.NewTicker(250 * time.Millisecond)
	defer tick.Stop()
	var ms runtime.MemStats
	n := 0
	for {
		select {
		case <-r.stop:
			return
		case <-tick.C:
		}
		seq := r.caseSeq.Load()
		if seq%2 == 0 {
			continue // between cases
		}
		cpu := time.Duration(cpuNow() - r.caseCPU0.Load())
		wall := time.Duration(time.Now().UnixNano() - r.caseWall0.Load())
		n++
		var heap uint64
		if n%4 == 0 || wall > 2*time.Second {
			runtime.ReadMemStats(&ms)
			heap = ms.HeapInuse
		}
		if r.caseSeq.Load() != seq {
			continue
		}
		switch {
		case cpu > cpuLimit:
			r.die("divergence", fmt.Sprintf("divergence: one bounded case consumed %v of CPU without finishing (normal: well under a millisecond)", cpu), 3)
		case heap > memLimit:
			r.die("divergence", fmt.Sprintf("divergence: one bounded case grew the heap to %d MiB without finishing", heap>>20), 3)
		case wall > wallLimit && cpu < wall/20:
			// blocked, not spinning: not decidable here
			buf := make([]byte, 1<<20)
			buf = buf[:runtime.Stack(buf, true)]
			_ = os.WriteFile(r.base()+".inconclusive.txt", append([]byte("case blocked without consuming CPU for "+wall.String()+"\n"), buf...), 0o644)
			r.flushPartial(false)
			os.Exit(4)
		}
	}
}

func (r *recorder[C]) die(kind, msg string, code int) {
	var js []byte
	if p := r.curJSON.Load(); p != nil {
		js = *p
	}
	if js == nil {
		js = []byte("null")
	}
	ff := &FailFile{Property: r.spec.Property, Unit: r.spec.Name, Case: js, Message: msg, Seed: r.env.Seed, Tier: r.env.Tier, Shard: r.env.Shard, Kind: kind}
	b, _ := json.MarshalIndent(ff, "", " ")
	_ = os.WriteFile(r.base()+".fail.json", b, 0o644)
	fmt.Fprintln(os.Stderr, "PBT-DIVERGENCE:", msg)
	os.Exit(code)
}

func unitSeed(e Env, name string) uint64 {
	h := fnv.New64a()
	h.Write([]byte(name))
	s := e.Seed*1000003 + uint64(e.Shard)*7919 + h.Sum64()%1000003
	if s == 0 {
		s = 0x5EED
	}
	return s
}

func newRecorder[C any](s *Spec[C], e Env) *recorder[C] {
	r := &recorder[C]{spec: s, env: e, start: time.Now(), hashes: map[uint64]struct{}{}, stop: make(chan struct{})}
	r.p = Partial{Property: s.Property, Unit: s.Name, Shard: e.Shard, Tier: e.Tier, Seed: e.Seed, Rule: s.Rule,
		Labels: map[string]int{}, Known: map[string]KnownHit{}, Assumes: s.Assumes}
	return r
}

// Fuzz runs the unit's generator and oracle as a native Go fuzz target (engine E6): the fuzzer's bytes drive
// rapid's generators (rapid.MakeFuzz), so the same Case type, Run and oracle are used under coverage guidance.
// Worker processes flush their evidence fragment periodically (they are killed when the fuzz time is over).
func Fuzz[C any](f *testing.F, s *Spec[C]) {
	e := GetEnv()
	r := newRecorder(s, e)
	r.suffix = fmt.Sprintf(".fz%d", os.Getpid())
	r.p.Rule = "native go fuzzing (coverage-guided bytes -> rapid generators via rapid.MakeFuzz): " + s.Rule
	go r.watchdog()
	n := 0
	f.Fuzz(rapid.MakeFuzz(func(rt *rapid.T) {
		c := s.Gen(rt)
		out := r.one(c)
		n++
		if n%500 == 0 {
			r.flushPartial(true)
		}
		if out.Violation != "" {
			r.flushPartial(true)
			rt.Fatalf("VIOLATION in %s", s.Name)
		}
	}))
}

// Check runs one unit under the current environment.
func Check[C any](t *testing.T, s *Spec[C]) {
	e := GetEnv()
	r := newRecorder(s, e)
	_ = os.Remove(r.base() + ".fail.json")
	_ = os.Remove(r.base() + ".partial.json")
	go r.watchdog()
	defer close(r.stop)
	completed := false
	defer func() { r.flushPartial(completed) }()

	enumOK := true
	if s.Enum != nil {
		s.Enum(e.Shard, e.Shards, e.Tier, func(c C) bool {
			out := r.one(c)
			if out.Violation != "" {
				t.Errorf("VIOLATION in %s: %s", s.Name, out.Violation)
				enumOK = false
				return false
			}
			return true
		})
		if enumOK && s.Exhaustive {
			r.p.Exhaustive = true
		}
	}
	if s.Gen != nil && enumOK {
		n := s.Quick
		if e.Tier == "thorough" {
			n = s.Thorough
		}
		n = int(float64(n) * e.Scale)
		if n < 1 {
			n = 1
		}
		r.p.Requested = n
		_ = flag.Set("rapid.checks", strconv.Itoa(n))
		_ = flag.Set("rapid.seed", strconv.FormatUint(unitSeed(e, s.Name), 10))
		_ = flag.Set("rapid.nofailfile", "true")
		_ = flag.Set("rapid.shrinktime", "20s")
		before := r.p.Cases
		rapid.Check(t, func(rt *rapid.T) {
			c := s.Gen(rt)
			out := r.one(c)
			if out.Violation != "" {
				// constant text: rapid only accepts a shrink candidate whose error string is
				// identical, so details (which change while shrinking) go to the log and the fail file
				rt.Logf("%s", firstLine(out.Violation))
				rt.Fatalf("VIOLATION in %s", s.Name)
			}
		})
		if !t.Failed() && r.p.Cases-before < int64(n) {
			t.Logf("PBT-SHORTFALL: %s ran %d of %d requested cases", s.Name, r.p.Cases-before, n)
		} else {
			completed = true
		}
		if s.Enum != nil && !s.Exhaustive {
			r.p.Exhaustive = false
		}
		if s.Gen != nil {
			r.p.Exhaustive = r.p.Exhaustive && s.Exhaustive
		}
	} else if enumOK {
		completed = true
	}
	if r.fail != nil {
		completed = true
		r.flushFail()
	}
}

func firstLine(s string) string {
	if i := strings.IndexByte(s, '\n'); i >= 0 {
		return s[:i]
	}
	return s
}

// Replay re-executes the case stored in $VERIF_REPLAY against the unit named
// in the file, bypassing rapid. The test fails iff the violation reproduces.
func Replay(t *testing.T) {
	path := os.Getenv("VERIF_REPLAY")
	if path == "" {
		t.Skip("VERIF_REPLAY not set")
	}
	b, err := os.ReadFile(path)
	if err != nil {
		t.Fatalf("REPLAY-ERROR: %v", err)
	}
	var ff FailFile
	if err := json.Unmarshal(b, &ff); err != nil {
		t.Fatalf("REPLAY-ERROR: %v", err)
	}
	u, ok := registry[ff.Unit]
	if !ok {
		fmt.Println("REPLAY-NOT-MINE")
		return
	}
	n := u.retries()
	hits := 0
	var last Outcome
	for i := 0; i < n; i++ {
		out, err := u.runJSON(ff.Case)
		if err != nil {
			t.Fatalf("REPLAY-ERROR: %v", err)
		}
		if out.Violation != "" {
			hits++
			last = out
			if n == 1 || hits >= 1 {
				break
			}
		}
	}
	if hits > 0 {
		fmt.Printf("REPLAY-VIOLATION unit=%s: %s\n", ff.Unit, last.Violation)
		t.Fail()
		return
	}
	fmt.Printf("REPLAY-OK unit=%s: violation did not reproduce in %d attempt(s)\n", ff.Unit, n)
}
