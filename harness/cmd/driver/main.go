// Command driver implements `./check Cnn quick|thorough|--replay <file>`.
//
// It rebuilds the property's test binary from /repo's current working tree
// (the harness module replaces gopkg.in/typ.v4 with /repo), runs the units of
// the property's plan as separate processes (sharded in the thorough tier),
// collects the side-channel files written by internal/pbt, writes
// /verif/evidence/Cnn.json and maps the result to the exit-code contract:
//
//	0  property held on everything explored (KNOWN-FINDING lines possible)
//	1  "VIOLATION property=Cnn replay=<path>" printed
//	2  inconclusive / infrastructure problem (never a violation)
package main

import (
	"bytes"
	"encoding/binary"
	"encoding/json"
	"fmt"
	"os"
	"os/exec"
	"path/filepath"
	"regexp"
	"runtime"
	"sort"
	"strconv"
	"strings"
	"sync"
	"syscall"
	"time"
)

const verifRoot = "/verif"

// altRepo is set (VERIF_REPO) only when the machinery is pointed at a scratch
// worktree of go-typ/typ, e.g. to try a seeded change without touching /repo.
// Registered commands never set it: they always build /repo's working tree.
var (
	altRepo     = ""
	evidenceDir = filepath.Join(verifRoot, "evidence")
	replayDir   = filepath.Join(verifRoot, "replays")
	workBase    = filepath.Join(verifRoot, ".work")
	modfile     = ""
)

type unitPlan struct {
	Test           string  `json:"test"`
	QuickShards    int     `json:"quick_shards"`
	ThoroughShards int     `json:"thorough_shards"`
	Race           bool    `json:"race"`
	ThoroughOnly   bool    `json:"thorough_only"`
	QuickOnly      bool    `json:"quick_only"`
	TimeoutQuickS  int     `json:"timeout_quick_s"`
	TimeoutThorS   int     `json:"timeout_thorough_s"`
	Fuzz           string  `json:"fuzz"`       // native fuzz target name (thorough only)
	FuzzTimeS      int     `json:"fuzztime_s"` // seconds
	Weight         float64 `json:"weight"`     // cpu slots this unit occupies (default 1)
	MaxProcs       int     `json:"gomaxprocs"` // GOMAXPROCS for the unit's process (0 = default)
	// GoArch: build and run this unit's test binary for another architecture that executes natively here ("386":
	// int, uint and uintptr are 32 bits wide). Files of the package select themselves with //go:build lines.
	GoArch string `json:"goarch"`
	// Env: extra environment for the unit's process, e.g. "GODEBUG=asynctimerchan=1" (the timer-channel semantics a
	// main module with a go line below 1.23 gets)
	Env []string `json:"env"`
}

type plan struct {
	Property string     `json:"property"`
	Pkg      string     `json:"pkg"` // default ./props/cNN
	Units    []unitPlan `json:"units"`
	Level    string     `json:"level"` // evidence level, default exploration
}

type partial struct {
	Property          string                     `json:"property"`
	Unit              string                     `json:"unit"`
	Shard             int                        `json:"shard"`
	Rule              string                     `json:"rule"`
	Evaluations       int64                      `json:"evaluations"`
	Cases             int64                      `json:"cases"`
	NonTrivial        int64                      `json:"nontrivial_cases"`
	Distinct          int64                      `json:"distinct_nontrivial_local"`
	ByConstr          int64                      `json:"distinct_by_construction"`
	Saturated         bool                       `json:"hashset_saturated"`
	Skipped           int64                      `json:"skipped_excluded"`
	Labels            map[string]int             `json:"labels"`
	Samples           []json.RawMessage          `json:"samples"`
	Exhaustive        bool                       `json:"exhaustive"`
	Requested         int                        `json:"requested"`
	Completed         bool                       `json:"completed"`
	Violations        int                        `json:"violations"`
	Known             map[string]knownHit        `json:"known"`
	Assumes           []string                   `json:"assumes"`
	WallS             float64                    `json:"wall_s"`
	HashFile          string                     `json:"hash_file"`
	Extra             map[string]json.RawMessage `json:"extra"`
	Inconclusive      int64                      `json:"inconclusive_cases"`
	InconclusiveFirst string                     `json:"inconclusive_first"`
}

type knownHit struct {
	Count int             `json:"count"`
	What  string          `json:"what"`
	Case  json.RawMessage `json:"case"`
}

type failFile struct {
	Property string          `json:"property"`
	Unit     string          `json:"unit"`
	Case     json.RawMessage `json:"case"`
	Observed json.RawMessage `json:"observed"`
	Message  string          `json:"message"`
	Seed     uint64          `json:"seed"`
	Tier     string          `json:"tier"`
	Shard    int             `json:"shard"`
	Kind     string          `json:"kind"`
}

type job struct {
	unit    unitPlan
	shard   int
	shards  int
	bin     string
	log     string
	exit    int
	timeout time.Duration
	timed   bool
	wall    float64
}

func die2(format string, a ...any) {
	fmt.Printf("INCONCLUSIVE: "+format+"\n", a...)
	os.Exit(2)
}

func goEnv(extra ...string) []string {
	env := os.Environ()
	env = append(env, "GOFLAGS=-mod=mod", "GOPROXY=off", "GOSUMDB=off", "GOTOOLCHAIN=local", "GONOSUMDB=*", "GONOSUMCHECK=1")
	return append(env, extra...)
}

func main() {
	if len(os.Args) < 3 {
		fmt.Println("usage: driver Cnn quick|thorough|--replay <file>")
		os.Exit(2)
	}
	prop := strings.ToUpper(os.Args[1])
	mode := os.Args[2]
	pkgDir := filepath.Join(verifRoot, "harness", "props", strings.ToLower(prop))
	var pl plan
	b, err := os.ReadFile(filepath.Join(pkgDir, "plan.json"))
	if err != nil {
		die2("no plan for %s: %v", prop, err)
	}
	if err := json.Unmarshal(b, &pl); err != nil {
		die2("bad plan for %s: %v", prop, err)
	}
	if pl.Pkg == "" {
		pl.Pkg = "./props/" + strings.ToLower(prop)
	}
	if pl.Level == "" {
		pl.Level = "exploration"
	}
	if r := os.Getenv("VERIF_REPO"); r != "" && r != "/repo" {
		altRepo = r
		sum := uint32(2166136261)
		for _, c := range []byte(r) {
			sum = (sum ^ uint32(c)) * 16777619
		}
		tag := fmt.Sprintf("%08x", sum)
		if t := os.Getenv("VERIF_ALT_TAG"); t != "" {
			tag = t
		}
		workBase = filepath.Join(verifRoot, ".work", "alt-"+tag)
		evidenceDir = filepath.Join(workBase, "evidence")
		replayDir = filepath.Join(workBase, "replays")
	}
	// one work directory per invocation (two commands for the same property may run at the same time, e.g. its quick
	// and its thorough tier); directories left by earlier invocations that are no longer running are removed first
	modeTag := strings.TrimLeft(mode, "-")
	_ = os.RemoveAll(filepath.Join(workBase, prop))
	_ = os.RemoveAll(filepath.Join(workBase, prop+".replay"))
	if old, _ := filepath.Glob(filepath.Join(workBase, prop+"."+modeTag+".*")); old != nil {
		for _, d := range old {
			pid, err := strconv.Atoi(d[strings.LastIndex(d, ".")+1:])
			if err != nil || syscall.Kill(pid, 0) != nil {
				_ = os.RemoveAll(d)
			}
		}
	}
	work := filepath.Join(workBase, fmt.Sprintf("%s.%s.%d", prop, modeTag, os.Getpid()))
	_ = os.RemoveAll(work)
	if err := os.MkdirAll(work, 0o755); err != nil {
		die2("cannot create %s: %v", work, err)
	}
	if altRepo != "" {
		gm, err := os.ReadFile(filepath.Join(verifRoot, "harness", "go.mod"))
		if err != nil {
			die2("go.mod: %v", err)
		}
		gm = bytes.ReplaceAll(gm, []byte("=> /repo"), []byte("=> "+altRepo))
		modfile = filepath.Join(work, "alt.go.mod")
		_ = os.WriteFile(modfile, gm, 0o644)
		gs, _ := os.ReadFile(filepath.Join(verifRoot, "harness", "go.sum"))
		_ = os.WriteFile(filepath.Join(work, "alt.go.sum"), gs, 0o644)
	}
	seed := int64(0)
	if v, err := strconv.ParseInt(os.Getenv("VERIF_SEED"), 10, 64); err == nil {
		seed = v
	}

	needRace, needPlain := false, false
	for _, u := range pl.Units {
		if u.Race {
			needRace = true
		} else {
			needPlain = true
		}
	}
	if mode == "--replay" {
		if len(os.Args) < 4 {
			die2("--replay needs a file")
		}
		os.Exit(replay(prop, pl, work, os.Args[3], needRace, needPlain))
	}
	if mode != "quick" && mode != "thorough" {
		die2("unknown mode %q", mode)
	}
	start := time.Now()
	bins := map[bool]string{}
	var bmu sync.Mutex
	var wg sync.WaitGroup
	var buildErr error
	for _, race := range []bool{false, true} {
		if (race && !needRace) || (!race && !needPlain) {
			continue
		}
		wg.Add(1)
		go func(race bool) {
			defer wg.Done()
			bin, err := build(pl, work, race)
			bmu.Lock()
			defer bmu.Unlock()
			if err != nil {
				buildErr = err
			}
			bins[race] = bin
		}(race)
	}
	wg.Wait()
	if buildErr != nil {
		die2("harness does not build against /repo's tree:\n%v", buildErr)
	}

	archBins := map[string]string{}
	for _, u := range pl.Units {
		if u.GoArch == "" || (u.ThoroughOnly && mode != "thorough") || (u.QuickOnly && mode != "quick") {
			continue
		}
		if _, done := archBins[u.GoArch]; done {
			continue
		}
		ab, err := buildArch(pl, work, u.GoArch)
		if err != nil {
			die2("harness does not build for GOARCH=%s:\n%v", u.GoArch, err)
		}
		archBins[u.GoArch] = ab
	}
	fuzzBin := ""
	for _, u := range pl.Units {
		if u.Fuzz != "" && !(u.ThoroughOnly && mode != "thorough") && fuzzBin == "" {
			fb, err := buildKind(pl, work, false, true)
			if err != nil {
				die2("fuzz binary does not build:\n%v", err)
			}
			fuzzBin = fb
		}
	}
	// jobs
	var jobs []*job
	for _, u := range pl.Units {
		if (u.ThoroughOnly && mode != "thorough") || (u.QuickOnly && mode != "quick") {
			continue
		}
		n := u.QuickShards
		to := u.TimeoutQuickS
		if to == 0 {
			to = 600
		}
		if mode == "thorough" {
			n = u.ThoroughShards
			to = u.TimeoutThorS
			if to == 0 {
				to = 3000
			}
		}
		if n <= 0 {
			n = 1
		}
		for i := 0; i < n; i++ {
			bin := bins[u.Race]
			if u.Fuzz != "" {
				bin = fuzzBin
			}
			if u.GoArch != "" {
				bin = archBins[u.GoArch]
			}
			jobs = append(jobs, &job{unit: u, shard: i, shards: n, bin: bin,
				log: filepath.Join(work, fmt.Sprintf("%s%s.s%d.log", u.Test, u.Fuzz, i)), timeout: time.Duration(to) * time.Second})
		}
	}
	slots := float64(runtime.NumCPU())
	if v, err := strconv.ParseFloat(os.Getenv("VERIF_JOBS"), 64); err == nil && v >= 1 {
		slots = v
	}
	runJobs(jobs, slots, work, mode, seed)

	os.Exit(collect(prop, pl, work, mode, seed, jobs, time.Since(start)))
}

func build(pl plan, work string, race bool) (string, error) {
	return buildKind(pl, work, race, false)
}

func buildArch(pl plan, work, goarch string) (string, error) {
	bin := filepath.Join(work, "test."+goarch+".bin")
	args := []string{"test", "-c", "-tags", "verif", "-vet=off"}
	if modfile != "" {
		args = append(args, "-modfile="+modfile)
	}
	args = append(args, "-o", bin, pl.Pkg)
	cmd := exec.Command("go", args...)
	cmd.Dir = filepath.Join(verifRoot, "harness")
	cmd.Env = goEnv("GOARCH="+goarch, "CGO_ENABLED=0")
	out, err := cmd.CombinedOutput()
	if err != nil {
		return "", fmt.Errorf("GOARCH=%s go %s: %v\n%s", goarch, strings.Join(args, " "), err, out)
	}
	return bin, nil
}

func buildKind(pl plan, work string, race, fuzz bool) (string, error) {
	name := "test.bin"
	args := []string{"test", "-c", "-tags", "verif", "-vet=off"}
	if race {
		name = "test.race.bin"
		args = append(args, "-race")
	}
	if fuzz {
		name = "test.fuzz.bin"
		args = append(args, "-fuzz=Fuzz") // coverage instrumentation for native fuzzing
	}
	bin := filepath.Join(work, name)
	if modfile != "" {
		args = append(args, "-modfile="+modfile)
	}
	args = append(args, "-o", bin, pl.Pkg)
	cmd := exec.Command("go", args...)
	cmd.Dir = filepath.Join(verifRoot, "harness")
	cmd.Env = goEnv()
	out, err := cmd.CombinedOutput()
	if err != nil {
		return "", fmt.Errorf("go %s: %v\n%s", strings.Join(args, " "), err, out)
	}
	return bin, nil
}

func runJobs(jobs []*job, slots float64, work, mode string, seed int64) {
	var mu sync.Mutex
	cond := sync.NewCond(&mu)
	used := 0.0
	var wg sync.WaitGroup
	for _, j := range jobs {
		w := j.unit.Weight
		if w <= 0 {
			w = 1
		}
		if w > slots {
			w = slots
		}
		mu.Lock()
		for used+w > slots+1e-9 {
			cond.Wait()
		}
		used += w
		mu.Unlock()
		wg.Add(1)
		go func(j *job, w float64) {
			defer wg.Done()
			runJob(j, work, mode, seed)
			mu.Lock()
			used -= w
			cond.Broadcast()
			mu.Unlock()
		}(j, w)
	}
	wg.Wait()
}

func runJob(j *job, work, mode string, seed int64) {
	t0 := time.Now()
	var args []string
	if j.unit.Fuzz != "" {
		ft := j.unit.FuzzTimeS
		if ft <= 0 {
			ft = 30
		}
		args = []string{"-test.run", "^$", "-test.fuzz", "^" + j.unit.Fuzz + "$", "-test.fuzztime", fmt.Sprintf("%ds", ft),
			"-test.fuzzcachedir", filepath.Join(work, "fuzzcache"), "-test.timeout", "0"}
	} else {
		args = []string{"-test.run", "^" + j.unit.Test + "$", "-test.count=1", "-test.timeout", "0", "-test.v"}
	}
	cmd := exec.Command(j.bin, args...)
	cmd.Dir = filepath.Join(work)
	env := goEnv(
		"VERIF_TIER="+mode, "VERIF_SEED="+strconv.FormatInt(seed, 10),
		"VERIF_SHARD="+strconv.Itoa(j.shard), "VERIF_SHARDS="+strconv.Itoa(j.shards),
		"VERIF_WORK="+work, "GOMEMLIMIT=3GiB",
		"GORACE=halt_on_error=1 exitcode=66 history_size=2",
	)
	if j.unit.MaxProcs > 0 {
		env = append(env, "GOMAXPROCS="+strconv.Itoa(j.unit.MaxProcs))
	}
	env = append(env, j.unit.Env...)
	cmd.Env = env
	cmd.SysProcAttr = &syscall.SysProcAttr{Setpgid: true}
	lf, err := os.Create(j.log)
	if err != nil {
		j.exit = -1
		return
	}
	defer lf.Close()
	cmd.Stdout = lf
	cmd.Stderr = lf
	if err := cmd.Start(); err != nil {
		fmt.Fprintf(lf, "start error: %v\n", err)
		j.exit = -1
		return
	}
	done := make(chan error, 1)
	go func() { done <- cmd.Wait() }()
	select {
	case err = <-done:
	case <-time.After(j.timeout):
		j.timed = true
		_ = syscall.Kill(-cmd.Process.Pid, syscall.SIGQUIT)
		select {
		case err = <-done:
		case <-time.After(5 * time.Second):
			_ = syscall.Kill(-cmd.Process.Pid, syscall.SIGKILL)
			err = <-done
		}
	}
	j.wall = time.Since(t0).Seconds()
	if err == nil {
		j.exit = 0
	} else if ee, ok := err.(*exec.ExitError); ok {
		j.exit = ee.ExitCode()
	} else {
		j.exit = -1
	}
}

// banners of process deaths that correct code cannot produce for the
// well-formed programs the harness runs (DESIGN section 3, E3).
var deathBanners = []*regexp.Regexp{
	regexp.MustCompile(`(?m)^panic: `),
	regexp.MustCompile(`(?m)^fatal error: sync: `),
	regexp.MustCompile(`(?m)^fatal error: concurrent map `),
	regexp.MustCompile(`(?m)^WARNING: DATA RACE`),
	// memory-safety deaths (a library that reads or writes freed or foreign memory through unsafe): the harness itself uses no unsafe
	regexp.MustCompile(`(?m)^fatal error: fault`),
	regexp.MustCompile(`(?m)^fatal error: found bad pointer`),
	regexp.MustCompile(`(?m)^fatal error: unexpected signal`),
	regexp.MustCompile(`(?m)^unexpected fault address`),
	regexp.MustCompile(`(?m)^runtime: pointer 0x[0-9a-f]+ to unallocated span`),
	regexp.MustCompile(`(?m)^fatal error: checkptr: `),
	// unbounded recursion inside the library (per element / per chunk)
	regexp.MustCompile(`(?m)^fatal error: stack overflow`),
	regexp.MustCompile(`(?m)^runtime: goroutine stack exceeds `),
}
var notViolationBanners = []*regexp.Regexp{
	regexp.MustCompile(`(?m)^fatal error: runtime: out of memory`),
	regexp.MustCompile(`(?m)^runtime: out of memory`),
	regexp.MustCompile(`(?m)^panic: test timed out`),
	regexp.MustCompile(`(?m)^SIGQUIT: quit`),
	regexp.MustCompile(`cannot allocate memory`),
}

type knownEntry struct{ kind, property, key, rest string }

func readKnown() []knownEntry {
	b, err := os.ReadFile(filepath.Join(verifRoot, "known-findings.txt"))
	if err != nil {
		return nil
	}
	var out []knownEntry
	for _, ln := range strings.Split(string(b), "\n") {
		ln = strings.TrimSpace(ln)
		if ln == "" || strings.HasPrefix(ln, "#") {
			continue
		}
		f := strings.Fields(ln)
		e := knownEntry{kind: strings.TrimSuffix(f[0], ":")}
		for _, w := range f[1:] {
			if strings.HasPrefix(w, "property=") {
				e.property = strings.TrimPrefix(w, "property=")
			}
			if strings.HasPrefix(w, "key=") {
				e.key = strings.TrimPrefix(w, "key=")
			}
		}
		e.rest = ln
		out = append(out, e)
	}
	return out
}

func saveReplay(prop string, ff *failFile) string {
	dir := filepath.Join(replayDir, prop)
	_ = os.MkdirAll(dir, 0o755)
	b, _ := json.MarshalIndent(ff, "", " ")
	sum := uint32(2166136261)
	for _, c := range b {
		sum = (sum ^ uint32(c)) * 16777619
	}
	name := fmt.Sprintf("%s-%s-%08x.json", time.Now().UTC().Format("20060102T150405"), strings.ReplaceAll(ff.Unit, "/", "_"), sum)
	p := filepath.Join(dir, name)
	_ = os.WriteFile(p, b, 0o644)
	return p
}

func tail(path string, n int) string {
	b, err := os.ReadFile(path)
	if err != nil {
		return ""
	}
	if len(b) > n {
		b = b[len(b)-n:]
	}
	return string(b)
}

func head(path string, n int) string {
	b, err := os.ReadFile(path)
	if err != nil {
		return ""
	}
	if len(b) > n {
		b = b[:n]
	}
	return string(b)
}

func collect(prop string, pl plan, work, mode string, seed int64, jobs []*job, wall time.Duration) int {
	var fails []*failFile
	var inconclusive []string
	parts := []*partial{}
	partFiles, _ := filepath.Glob(filepath.Join(work, "*.partial.json"))
	sort.Strings(partFiles)
	for _, pf := range partFiles {
		b, err := os.ReadFile(pf)
		if err != nil {
			continue
		}
		var p partial
		if json.Unmarshal(b, &p) == nil {
			parts = append(parts, &p)
		}
	}
	failFiles, _ := filepath.Glob(filepath.Join(work, "*.fail.json"))
	sort.Strings(failFiles)
	for _, f := range failFiles {
		b, err := os.ReadFile(f)
		if err != nil {
			continue
		}
		var ff failFile
		if json.Unmarshal(b, &ff) == nil {
			fails = append(fails, &ff)
		}
	}
	// process-level outcomes
	for _, j := range jobs {
		if j.exit == 0 {
			continue
		}
		logText := head(j.log, 1<<20) + tail(j.log, 1<<16)
		if j.timed {
			inconclusive = append(inconclusive, fmt.Sprintf("%s shard %d: deadline of %v expired (see %s)", j.unit.Test, j.shard, j.timeout, j.log))
			continue
		}
		if j.exit == 4 {
			inconclusive = append(inconclusive, fmt.Sprintf("%s shard %d: a case blocked without progress (see %s)", j.unit.Test, j.shard, j.log))
			continue
		}
		// does a fail file of this unit/shard explain the exit?
		explained := false
		for _, ff := range fails {
			if ff.Shard == j.shard && unitOfTest(parts, failFiles, j, ff) {
				explained = true
			}
		}
		if explained {
			continue
		}
		if j.unit.Fuzz != "" {
			// native fuzz crasher: the fuzz target writes its own fail file through pbt; if not, keep the log
			inconclusive = append(inconclusive, fmt.Sprintf("fuzz %s exited %d without a recorded case (see %s)", j.unit.Fuzz, j.exit, j.log))
			continue
		}
		bad := false
		for _, re := range notViolationBanners {
			if re.MatchString(logText) {
				bad = true
			}
		}
		death := ""
		if !bad {
			for _, re := range deathBanners {
				if m := re.FindString(logText); m != "" {
					death = m
					break
				}
			}
			if j.exit == 66 && death == "" {
				death = "race detector exit"
			}
		}
		if death != "" {
			// use the current-case marker
			cur, _ := filepath.Glob(filepath.Join(work, fmt.Sprintf("*.s%d.current.json", j.shard)))
			var ff *failFile
			for _, c := range cur {
				b, err := os.ReadFile(c)
				if err != nil {
					continue
				}
				var f failFile
				if json.Unmarshal(b, &f) == nil && testMatchesUnit(j.unit.Test, f.Unit) {
					ff = &f
				}
			}
			if ff != nil {
				ff.Kind = "process-death"
				ff.Message = fmt.Sprintf("test process died (%s) while executing this case; log excerpt:\n%s", strings.TrimSpace(death), excerpt(logText, death))
				fails = append(fails, ff)
				continue
			}
			inconclusive = append(inconclusive, fmt.Sprintf("%s shard %d died (%s) without a recorded case (see %s)", j.unit.Test, j.shard, strings.TrimSpace(death), j.log))
			continue
		}
		inconclusive = append(inconclusive, fmt.Sprintf("%s shard %d exited with status %d (see %s)", j.unit.Test, j.shard, j.exit, j.log))
	}
	// every job must have produced a completed partial
	for _, j := range jobs {
		if j.exit != 0 || j.unit.Fuzz != "" {
			continue
		}
		found := false
		for _, p := range parts {
			if p.Shard == j.shard && testMatchesUnit(j.unit.Test, p.Unit) {
				found = true
				if !p.Completed {
					inconclusive = append(inconclusive, fmt.Sprintf("%s shard %d ran %d of %d requested cases", j.unit.Test, j.shard, p.Cases, p.Requested))
				}
			}
		}
		if !found {
			inconclusive = append(inconclusive, fmt.Sprintf("%s shard %d left no evidence fragment", j.unit.Test, j.shard))
		}
	}

	for _, p := range parts {
		if p.Inconclusive > 0 {
			inconclusive = append(inconclusive, fmt.Sprintf("%s shard %d: %d case(s) could not be decided, first: %s", p.Unit, p.Shard, p.Inconclusive, p.InconclusiveFirst))
		}
	}

	// known findings
	known := readKnown()
	knownLines := []string{}
	knownSeen := map[string]bool{}
	for _, p := range parts {
		keys := make([]string, 0, len(p.Known))
		for k := range p.Known {
			keys = append(keys, k)
		}
		sort.Strings(keys)
		for _, k := range keys {
			h := p.Known[k]
			listed := false
			for _, e := range known {
				if e.kind == "known" && e.property == prop && e.key == k {
					listed = true
				}
			}
			if listed {
				if !knownSeen[k] {
					knownSeen[k] = true
					knownLines = append(knownLines, fmt.Sprintf("KNOWN-FINDING: property=%s key=%s %s", prop, k, h.What))
				}
			} else {
				fails = append(fails, &failFile{Property: prop, Unit: p.Unit, Case: h.Case, Shard: p.Shard, Tier: mode, Seed: uint64(seed),
					Kind: "violation", Message: "finding with key " + k + " is not listed in known-findings.txt: " + h.What})
			}
		}
	}

	// evidence
	ev := buildEvidence(prop, pl, mode, seed, parts, wall, len(fails), knownLines, inconclusive)
	_ = os.MkdirAll(evidenceDir, 0o755)
	eb, _ := json.MarshalIndent(ev, "", " ")
	_ = os.WriteFile(filepath.Join(evidenceDir, prop+".json"), append(eb, '\n'), 0o644)

	for _, l := range knownLines {
		fmt.Println(l)
	}
	if len(fails) > 0 {
		// smallest case first
		sort.SliceStable(fails, func(i, j int) bool { return len(fails[i].Case) < len(fails[j].Case) })
		seenUnit := map[string]bool{}
		for _, ff := range fails {
			if seenUnit[ff.Unit] {
				continue
			}
			seenUnit[ff.Unit] = true
			p := saveReplay(prop, ff)
			fmt.Printf("VIOLATION property=%s replay=%s\n", prop, p)
			fmt.Printf("  unit=%s: %s\n  case=%s\n", ff.Unit, indent(ff.Message), compact(ff.Case, 600))
		}
		return 1
	}
	if len(inconclusive) > 0 {
		for _, s := range inconclusive {
			fmt.Println("INCONCLUSIVE:", s)
		}
		return 2
	}
	cov := ev["coverage"].(map[string]any)
	fmt.Printf("OK property=%s tier=%s seed=%d evaluations=%v distinct_nontrivial=%v wall=%.1fs\n", prop, mode, seed, cov["evaluations"], cov["distinct_nontrivial"], wall.Seconds())
	return 0
}

func indent(s string) string { return strings.ReplaceAll(strings.TrimSpace(s), "\n", "\n    ") }

func compact(raw json.RawMessage, n int) string {
	var buf bytes.Buffer
	if json.Compact(&buf, raw) != nil {
		return string(raw)
	}
	s := buf.String()
	if len(s) > n {
		s = s[:n] + "…"
	}
	return s
}

func excerpt(log, marker string) string {
	i := strings.Index(log, marker)
	if i < 0 {
		return ""
	}
	e := log[i:]
	if len(e) > 2500 {
		e = e[:2500]
	}
	return e
}

// test function names are TestC13Enum; unit names are "C13.enum": compare case-insensitively without dots.
func testMatchesUnit(test, unit string) bool {
	norm := func(s string) string {
		s = strings.ToLower(s)
		s = strings.TrimPrefix(s, "test")
		s = strings.TrimPrefix(s, "fuzz")
		return strings.NewReplacer(".", "", "_", "", "/", "").Replace(s)
	}
	return norm(test) == norm(unit)
}

func unitOfTest(_ []*partial, _ []string, j *job, ff *failFile) bool {
	return testMatchesUnit(j.unit.Test, ff.Unit)
}

func buildEvidence(prop string, pl plan, mode string, seed int64, parts []*partial, wall time.Duration, nviol int, knownLines, inconclusive []string) map[string]any {
	var evals, byConstr, skipped int64
	union := map[uint64]struct{}{}
	saturated := false
	exhaustiveAll := len(parts) > 0
	var rules []string
	seenRule := map[string]bool{}
	var samples []any
	units := map[string]map[string]any{}
	assume := []string{}
	seenAssume := map[string]bool{}
	for _, p := range parts {
		evals += p.Evaluations
		byConstr += p.ByConstr
		skipped += p.Skipped
		saturated = saturated || p.Saturated
		if !p.Exhaustive {
			exhaustiveAll = false
		}
		if p.HashFile != "" {
			if b, err := os.ReadFile(p.HashFile); err == nil {
				for i := 0; i+8 <= len(b); i += 8 {
					union[binary.LittleEndian.Uint64(b[i:])] = struct{}{}
				}
			}
		}
		if !seenRule[p.Unit] {
			seenRule[p.Unit] = true
			rules = append(rules, p.Unit+": "+p.Rule)
		}
		for _, a := range p.Assumes {
			if !seenAssume[a] {
				seenAssume[a] = true
				assume = append(assume, a)
			}
		}
		u := units[p.Unit]
		if u == nil {
			u = map[string]any{"cases": int64(0), "evaluations": int64(0), "nontrivial_cases": int64(0), "shards": 0, "labels": map[string]int{}, "exhaustive": p.Exhaustive, "skipped_excluded_by_construction": int64(0)}
			units[p.Unit] = u
			for i, s := range p.Samples {
				if i < 2 {
					samples = append(samples, map[string]any{"unit": p.Unit, "case": s})
				}
			}
		}
		u["cases"] = u["cases"].(int64) + p.Cases
		u["evaluations"] = u["evaluations"].(int64) + p.Evaluations
		u["nontrivial_cases"] = u["nontrivial_cases"].(int64) + p.NonTrivial
		u["skipped_excluded_by_construction"] = u["skipped_excluded_by_construction"].(int64) + p.Skipped
		u["shards"] = u["shards"].(int) + 1
		lm := u["labels"].(map[string]int)
		for k, v := range p.Labels {
			lm[k] += v
		}
		for k, v := range p.Extra {
			u[k] = v
		}
	}
	distinct := int64(len(union)) + byConstr
	if len(samples) == 0 {
		samples = append(samples, "no case recorded")
	}
	if saturated {
		rules = append(rules, "NOTE: a per-process hash set reached its cap; distinct_nontrivial is a lower bound")
	}
	cov := map[string]any{
		"evaluations":              evals,
		"distinct_nontrivial":      distinct,
		"rule":                     strings.Join(rules, " || "),
		"samples":                  samples,
		"exhaustive":               exhaustiveAll,
		"units":                    units,
		"excluded_by_construction": skipped,
	}
	if len(knownLines) > 0 {
		cov["known_findings"] = knownLines
	}
	if len(inconclusive) > 0 {
		cov["inconclusive"] = inconclusive
	}
	assume = append(assume, "verdicts come from generated-input search against an explicit oracle; absence of violations is not established")
	return map[string]any{
		"property_id": prop,
		"tier":        mode,
		"seed":        seed,
		"level":       pl.Level,
		"coverage":    cov,
		"assumptions": assume,
		"wall_s":      float64(int(wall.Seconds()*10)) / 10,
		"violations":  nviol,
	}
}

func replay(prop string, pl plan, work, path string, needRace, needPlain bool) int {
	abs, err := filepath.Abs(path)
	if err != nil {
		die2("bad path %s", path)
	}
	b, err := os.ReadFile(abs)
	if err != nil {
		die2("cannot read %s: %v", abs, err)
	}
	var ff failFile
	if err := json.Unmarshal(b, &ff); err != nil {
		die2("not a replay file: %v", err)
	}
	// pick the binary flavour of the unit
	race := false
	goarch := ""
	for _, u := range pl.Units {
		if testMatchesUnit(u.Test, ff.Unit) {
			race = u.Race
			goarch = u.GoArch
		}
	}
	bin, err := build(pl, work, race)
	if goarch != "" {
		bin, err = buildArch(pl, work, goarch)
	}
	if err != nil {
		die2("harness does not build against /repo's tree:\n%v", err)
	}
	cmd := exec.Command(bin, "-test.run", "^TestReplay$", "-test.count=1", "-test.timeout", "300s", "-test.v")
	cmd.Dir = work
	cmd.Env = goEnv("VERIF_REPLAY="+abs, "VERIF_WORK="+work, "VERIF_TIER=replay", "GORACE=halt_on_error=1 exitcode=66")
	for _, u := range pl.Units {
		if testMatchesUnit(u.Test, ff.Unit) {
			cmd.Env = append(cmd.Env, u.Env...)
		}
	}
	out, err := cmd.CombinedOutput()
	text := string(out)
	switch {
	case strings.Contains(text, "REPLAY-VIOLATION"):
		for _, ln := range strings.Split(text, "\n") {
			if strings.Contains(ln, "REPLAY-VIOLATION") {
				fmt.Println(ln)
			}
		}
		fmt.Printf("VIOLATION property=%s replay=%s\n", prop, abs)
		return 1
	case strings.Contains(text, "REPLAY-OK"):
		for _, ln := range strings.Split(text, "\n") {
			if strings.Contains(ln, "REPLAY-OK") {
				fmt.Println(ln)
			}
		}
		return 0
	case err != nil:
		// process death during replay of a crashy case
		for _, re := range notViolationBanners {
			if re.MatchString(text) {
				fmt.Println(text)
				return 2
			}
		}
		for _, re := range deathBanners {
			if m := re.FindString(text); m != "" {
				fmt.Printf("REPLAY-VIOLATION unit=%s: process died (%s)\n%s\n", ff.Unit, strings.TrimSpace(m), excerpt(text, m))
				fmt.Printf("VIOLATION property=%s replay=%s\n", prop, abs)
				return 1
			}
		}
		if ee, ok := err.(*exec.ExitError); ok && ee.ExitCode() == 66 {
			fmt.Printf("REPLAY-VIOLATION unit=%s: race detector report\n", ff.Unit)
			fmt.Printf("VIOLATION property=%s replay=%s\n", prop, abs)
			return 1
		}
		fmt.Println(text)
		return 2
	}
	fmt.Println(text)
	return 2
}
