#!/bin/sh
# Builds the driver offline from files on disk only.
set -e
cd /verif/harness
export GOFLAGS=-mod=mod GOPROXY=off GOSUMDB=off GOTOOLCHAIN=local
mkdir -p /verif/bin /verif/evidence /verif/replays /verif/.work
go build -o /verif/bin/verif-driver ./cmd/driver
echo "driver built"
